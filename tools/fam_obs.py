"""Observer-level checks: C06 memory contract, C07 constant time, C19 reentrancy, C20 erasure."""
import os, glob, json, re, itertools
from tjv import *
from fam_cipher import chunks, KLEN, flip
from fam_hash import run_exec_groups, sim_plans, datav
from fam_prng import history_lines, script_items

ASAN_ENV = dict(ASAN_OPTIONS='detect_leaks=0:allow_user_segv_handler=1:handle_segv=0:handle_abort=0:abort_on_error=1',
                UBSAN_OPTIONS='halt_on_error=1:print_stacktrace=1')


def judge_o(chk, module, execs, label=''):
    res = validate(chk.wd, module, execs, cost=lambda e: 1 + len(json.dumps(e)) / 4000.0)
    chk.add_validation(module, res, execs)
    seen = set()
    for (xi, ev, mm) in res['mismatches']:
        key = (ev.get('id'), str(mm.get('expected'))[:60])
        if key in seen:
            continue
        seen.add(key)
        chk.violation(f"{label}event {ev.get('id')} ({ev.get('e')}): {json.dumps(mm.get('expected'))[:300]}",
                      dict(trace_spec=module, build=label, event=trim(ev, 60), expected=trim(mm.get('expected'), 60)))
    return res


def pairs(lines_fn):
    """every plan line twice: (output pre-fill 0x00, fresh objects 0x55) and (0xFF, 0xAA)"""
    return lines_fn


# ----------------------------------------------------------------------------- the memory sweep plan (C06)
def mem_plan(chk, r):
    """returns list of groups; each group is executed twice (different pre-fills), events carry pair=1/2"""
    G = []
    thor = chk.thorough
    # ciphers: every (adlen, mlen) of the window; alternate placements / alignment / aliasing / NULL-with-zero
    AD = range(0, 41) if thor else range(0, 18)
    ML = range(0, 41) if thor else list(range(0, 37))
    edge = [63, 64, 65, 127, 128, 129, 1023, 1024, 1025] + ([4095, 4096, 4097, 65536] if thor else [65536])
    n = 0
    g = []
    for v in (128, 192, 256):
        for mode in ('aead', 'siv'):
            k, nn = r.hex(KLEN[v]), r.hex(12)
            for a in AD:
                for m in ML:
                    n += 1
                    if not thor and (a * 7 + m * 3 + v // 64 + (mode == 'siv')) % 3:
                        continue
                    pl = 'es'[n % 2]
                    ads = datav(r, a) if a else ('null' if n % 2 else '-')
                    ms = datav(r, m, 'rh'[n % 2]) if m else ('null' if n % 3 == 0 else '-')
                    off = f"{n % 8},{(n // 8) % 8},{(n // 3) % 8},{n % 4},{(n // 5) % 4}"
                    g.append([f"enc id=c{n} mode={mode} v={v} k={k} n={nn} ad={ads} m={ms} alias={n % 2 if m else 0} pl={pl} off={off}",
                              f"decbig id=d{n} mode={mode} v={v} seed={n} adlen={a} mlen={m} tamper={n % 6} pos={n} alias={(n // 2) % 2} pl={pl}"])
            for m in edge:
                n += 1
                g.append([f"decbig id=dE{n} mode={mode} v={v} seed={n} adlen={(n % 3) * 33} mlen={m} tamper={n % 3} pos={m - 1} alias={n % 2}"])
                g.append([f"decbig id=dA{n} mode={mode} v={v} seed={n} adlen={m % 5000} mlen={n % 7} tamper={3 * (n % 2)} pos=1 alias=0 pl=s"])
            for cl in range(8):
                g.append([f"dec id=s{n}-{cl} mode={mode} v={v} k={k} n={nn} ad=- c={datav(r, cl) if cl else '-'} mnull={cl % 2}"])
    G.extend(chunks(g, 150))
    # check_tag directly: sizes 0..16, plaintext lengths 0..40
    g = []
    for sz in (0, 1, 7, 8, 9, 16):
        for pl_ in (0, 1, 2, 3, 4, 5, 7, 8, 15, 16, 17, 33, 40):
            t1 = r.bytes(sz)
            t2 = t1 if (sz + pl_) % 2 else (flip(t1, (pl_ * 5) % (8 * sz)) if sz else t1)
            g.append([f"checktag id=ct{sz}-{pl_} pt={datav(r, pl_)} t1={hx(t1)} t2={hx(t2)} pl={'es'[pl_ % 2]} off={pl_ % 8},{sz % 8},{(pl_ + 3) % 8}"])
    G.append(g)
    # hash: every (posn, len) update transition; one-shot lengths; HMAC grid; objects reused across histories
    g = []
    for posn in range(16):
        for ln in (range(49) if thor else list(range(0, 20)) + [31, 32, 33, 47, 48]):
            o = (posn + ln) % 8
            g.append([f"hinit id=h{posn}-{ln}i obj={o}",
                      f"hupdate id=h{posn}-{ln}a obj={o} d={datav(r, posn)}",
                      f"hupdate id=h{posn}-{ln}b obj={o} d={datav(r, ln) if ln else ('null' if posn % 2 else '-')} pl={'es'[ln % 2]} off=0,{ln % 8}",
                      f"hfinal id=h{posn}-{ln}f obj={o} off={posn % 8}"] + ([f"hfree id=h{posn}-{ln}x obj={o}"] if (posn + ln) % 5 == 0 else []))
    G.extend(chunks(g, 400))
    g = []
    for ln in list(range(0, 72)) + [127, 128, 129, 1024, 4099]:
        g.append([f"hash id=H{ln} m={datav(r, ln) if ln else 'null'} pl={'es'[ln % 2]} off={ln % 8},{(ln + 3) % 8}"])
    for kl in (0, 1, 31, 32, 33, 63, 64, 65, 66, 100, 200):
        for ml in (0, 1, 15, 16, 17, 40, 64, 65):
            ks = datav(r, kl) if kl else ('null' if ml % 2 else '-')
            o = (kl + ml) % 8
            g.append([f"hmac id=M{kl}-{ml} k={ks} m={datav(r, ml) if ml else '-'} off={kl % 8},{ml % 8},{(kl + ml) % 8}",
                      f"hminit id=M{kl}-{ml}i obj={o} k={ks}", f"hmupdate id=M{kl}-{ml}u obj={o} d={datav(r, ml) if ml else 'null'}",
                      f"hmfinal id=M{kl}-{ml}f obj={o} k={ks}"] + ([f"hmfree id=M{kl}-{ml}x obj={o}"] if ml % 3 == 0 else []))
    G.extend(chunks(g, 200))
    # HKDF: one-shot lengths, every (posn, len) edge, the limit (one-shot and incremental crossing)
    g = []
    for ln in list(range(0, 71)) + [8159, 8160, 8161, 100000, (1 << 32) + 7]:
        g.append([f"hkdf id=K{ln} len={ln} key={datav(r, ln % 50)} salt={datav(r, ln % 70) if ln % 3 else 'null'} info={datav(r, ln % 9)} off={ln % 8}"])
    for posn in (0, 1, 5, 16, 31, 32):
        for ln in (0, 1, 5, 26, 27, 31, 32, 33, 64, 65):
            o = (posn + ln) % 8
            g.append([f"hkextract id=k{posn}-{ln}x obj={o} key={datav(r, 16)} salt={datav(r, posn)}",
                      f"hkexpand id=k{posn}-{ln}a obj={o} info=01 len={32 + posn if posn < 32 else 64}",
                      f"hkexpand id=k{posn}-{ln}b obj={o} info=01 len={ln} pl={'es'[ln % 2]} off={ln % 8}",
                      f"hkfree id=k{posn}-{ln}f obj={o}"])
    for fi, fam in enumerate([[8150, 20], [8161], [8160, 1], [8064, 97], [8129, 7, 40], [8192, 5]]):
        g.append([f"hkextract id=kl{fi}x obj=1 key={datav(r, 9)} salt=-"] +
                 [f"hkexpand id=kl{fi}e{j} obj=1 info=- len={ln} pl={'es'[j % 2]}" for j, ln in enumerate(fam)])
    G.extend(chunks(g, 150))
    # a 300 KB packet decrypted by a thread with a 96 KiB stack: the library's stack use does not grow with the message
    g = []
    for v in (128, 192, 256):
        for mode in ('aead', 'siv'):
            for al in (0, 1):
                g.append([f"decbig id=ss{v}{mode}{al} mode={mode} v={v} seed={r.randint(1, 2 ** 40)} adlen=5 mlen=300007 tamper={al * 2} pos=3 alias={al} pf=165 cls=r smallstack=1"])
    G.append(g)
    # PBKDF2 output lengths, PRNG sizes with full / short / failing sources, clean, permutation
    g = []
    for ln in range(0, 71):
        g.append([f"pbkdf2 id=P{ln} len={ln} count={1 + ln % 3} pw={datav(r, ln % 13)} salt={datav(r, ln % 7)} pl={'es'[ln % 2]} off={ln % 8}"])
        if ln in (1, 31, 32, 33, 64, 70):
            # an iteration count of 0: whatever the function makes of it, every output byte is written and defined
            g.append([f"pbkdf2 id=P{ln}c0 len={ln} count=0 pw={datav(r, 5)} salt={datav(r, 4)} pl={'es'[ln % 2]}"])
    G.append(g)
    for pi, dels in enumerate([['full'], ['short', 'full', 'none'], ['none', 'none'], ['full', 'short', 'short', 'full']]):
        ops = [dict(op='pinit', arg=[0, 5, 40, 0][pi])]
        for ln in list(range(0, 71, 3 if not thor else 1)) + [4096]:
            ops.append(dict(op='pgen', arg=ln))
        ops += [dict(op='pfeed', arg=k) for k in (0, 1, 31, 70)] + [dict(op='preseed'), dict(op='plimit', arg=64), dict(op='pgen', arg=200),
                                                                      dict(op='pfree')]
        G.append([history_lines(r, f"R{pi}", ops, dels + ['full', 'short', 'none', 'full'] * 3, obj=pi)])
    g = []
    for o in range(8):
        for sz in list(range(0, 71)) + [255, 256, 257, 4096]:
            g.append([f"clean id=Z{o}-{sz} size={sz} o={o} pl={'es'[(o + sz) % 2]}"])
    for v in (128, 192, 256):
        for rounds in (1, 5, 8, 9, 10, 20):
            g.append([f"perm id=X{v}-{rounds} v={v} rounds={rounds} s={r.hex(16)} k={r.hex(KLEN[v])}"])
    G.append(g)
    return G       # groups of units; a unit is a list of plan lines that must stay together


def flat(groups, every=1, drop=None):
    """flatten groups of units into groups of lines, keeping every n-th unit of large groups"""
    out = []
    for g in groups:
        us = g if (every == 1 or len(g) <= 8) else g[::every]
        lines = [ln for u in us for ln in u if not (drop and drop(ln))]
        out.append(lines)
    return out


def run_pairs(exe, groups, env=None, prefix=None, timeout=1800):
    """execute each group twice with different pre-fills; interleave the events as pairs"""
    lines1, lines2 = [], []
    for gi, g in enumerate(groups):
        lines1.append(f"reset id=x{gi} fill=0x55")
        lines2.append(f"reset id=x{gi} fill=0xAA")
        for ln in g:
            lines1.append(ln + (" pf=0" if ' pf=' not in ln else ''))
            lines2.append(re.sub(r' pf=\S+', '', ln) + " pf=255")
    e1, err1 = run_driver(exe, lines1, timeout=timeout, env=env, prefix=prefix)
    e2, err2 = run_driver(exe, lines2, timeout=timeout, env=env, prefix=prefix)
    x1, x2 = split_executions(e1), split_executions(e2)
    execs = []
    for a, b in itertools.zip_longest(x1, x2, fillvalue=[]):
        ex = []
        bi = {}
        for ev in b:
            bi.setdefault((ev.get('e'), ev.get('id')), []).append(ev)
        for ev in a:
            if ev.get('e') == 'Reset':
                ex.append(ev)
                continue
            mate = bi.get((ev.get('e'), ev.get('id')), [])
            if mate and ev.get('e') not in ('Fault', 'San'):
                m = mate.pop(0)
                ev['pair'] = 1
                m['pair'] = 2
                ex += [ev, m]
            else:
                ex.append(ev)
        for lst in bi.values():          # unmatched events of the second run (e.g. its own Fault)
            for ev in lst:
                if ev.get('e') != 'Reset':
                    ex.append(ev)
        execs.append(ex)
    return execs, (err1 + err2)


def check_C06(chk):
    r = Rng(chk.seed ^ 0xC06)
    ugroups = mem_plan(chk, r)
    groups = flat(ugroups)
    nlines = sum(len(g) for g in groups)
    chk.cov['plan_calls'] = nlines
    # (1) production objects (gcc -O3), guard pages + canaries + read-only inputs, two pre-fills
    for cfg in (['prod', 'alt3'] + (['dbg', 'alt', 'os', 'portable'] if chk.thorough else [])):
        exe = build_driver(chk.wd, cfg, extra='-DTJD_WRAP_GETRANDOM', wraps=('getrandom', 'getentropy', 'syscall'))
        if exe is None:
            continue
        chk.cov['builds'].append(cfg)
        execs, _ = run_pairs(exe, groups if cfg == 'prod' or chk.thorough else flat(ugroups, 2))
        judge_o(chk, 'TV_Obs', execs, f'{cfg}: ')
        if cfg == 'prod':
            chk.sample(trim(execs[0][1], 10)); chk.sample(trim(execs[-1][-1], 10))
    # (2) ASan + UBSan build: misaligned access, out-of-range shifts, signed overflow, heap/stack/global overflows
    exe_s = build_driver(chk.wd, 'san', extra='-DTJD_WRAP_GETRANDOM', wraps=('getrandom', 'getentropy', 'syscall'))
    chk.cov['builds'].append('san')
    env = dict(os.environ); env.update(ASAN_ENV)
    sub = flat(ugroups, 1 if chk.thorough else 2)
    lines = []
    for gi, g in enumerate(sub):
        lines.append(f"reset id=s{gi}")
        lines.extend(g)
    ev_s, err = run_driver(exe_s, lines, timeout=1800, env=env)
    if ev_s and ev_s[-1].get('e') == 'Fault' and 'stderr' not in ev_s[-1]:
        ev_s[-1]['stderr'] = err[-600:]
    san_report = re.search(r'(runtime error:.*|ERROR: AddressSanitizer.*)', err)
    if san_report:
        ev_s.append({"e": "San", "id": ev_s[-1].get('id', '?'), "text": san_report.group(1)[:300]})
    judge_o(chk, 'TV_Obs', split_executions(ev_s), 'san: ')
    # (3) valgrind memcheck on the -O3 objects: outputs must be defined (they are printed), no invalid access
    exe_v = build_driver(chk.wd, 'vg', extra='-DTJD_WRAP_GETRANDOM', wraps=('getrandom', 'getentropy', 'syscall'))
    chk.cov['builds'].append('vg(memcheck)')
    vsub = flat(ugroups, 1 if chk.thorough else 3, drop=lambda ln: 'mlen=65536' in ln or 'adlen=65536' in ln)
    parts = chunks([(gi, g) for gi, g in enumerate(vsub)], max(1, len(vsub) // NCPU + 1))

    def vg(part):
        lines = []
        for gi, g in part:
            lines.append(f"reset id=v{gi}")
            lines.extend(g)
        log = os.path.join(chk.wd, f"vg-{part[0][0]}.log")
        ev, err = run_driver(exe_v, lines, timeout=1800,
                             prefix=['valgrind', '-q', '--tool=memcheck', '--error-exitcode=0', f'--log-file={log}', '--track-origins=no'])
        txt = open(log).read() if os.path.exists(log) else ''
        return ev, txt
    with ThreadPoolExecutor(NCPU) as ex:
        vres = list(ex.map(vg, parts))
    ev_v = []
    for ev, txt in vres:
        ev_v.extend(ev)
        # reports whose stack does not touch the library are the harness's own business (none expected)
        for blk in re.split(r'\n==\d+== \n', txt):
            if ('tinyjambu' in blk) and re.search(r'uninitialised|Invalid (read|write)|Source and destination overlap', blk):
                ev_v.append({"e": "San", "id": "valgrind", "text": blk.strip()[:500]})
    judge_o(chk, 'TV_Obs', split_executions(ev_v), 'memcheck: ')
    chk.finish(
        rule="sweep of every public function over an exhaustive window of length tuples (AEAD/SIV adlen x mlen, hash/HMAC "
             "(posn, len), HKDF (posn, len) and the 8160 limit one-shot and incremental, PBKDF2/PRNG/clean sizes 0..70, large "
             "sizes), alignments 0..7, both guard-page placements, NULL with zero length, in place where permitted; every buffer "
             "and state object fenced by PROT_NONE pages and canaries, inputs mapped read-only; each call executed twice with "
             "different pre-fills of outputs and fresh objects (equal outputs = fully written, nothing uninitialised read); the "
             "plan is repeated on an ASan+UBSan build and under valgrind memcheck; TLC judges every event against the contract "
             "TJMem (TV_Obs); a Fault/San event has no matching action; distinct = distinct events",
        assumptions=["an over-read that stays inside another live object of the caller is invisible to guard pages and sanitizers",
                     "memcpy(dst, NULL, 0) is permitted by the property (NULL with zero length); UBSan's nonnull-attribute check is off"])


# ----------------------------------------------------------------------------- C20
def erase_plan(chk, r):
    G = []
    # hash / HMAC: fresh, mid-block, block boundary, after finalize, never initialised, freed twice
    for fill in (0x00, 0xAA, 0xFF, 0x01):
        g = []
        for k in (0, 1, 15, 16, 17, 40):
            for fin in (0, 1):
                o = (k + fin) % 8
                g += [f"hinit id=e{fill}-h{k}{fin}i obj={o}", f"hupdate id=e{fill}-h{k}{fin}u obj={o} d={datav(r, k) if k else '-'} op=1"]
                if fin:
                    g.append(f"hash id=e{fill}-h{k}{fin}l m=- learn=1")
                    g.append(f"hfinal id=e{fill}-h{k}{fin}f obj={o} op=1")
                g.append(f"hfree id=e{fill}-h{k}{fin}x obj={o}")
                ks = datav(r, [0, 20, 64, 100][k % 4]) if k % 4 else '-'
                g += [f"hminit id=e{fill}-m{k}{fin}i obj={o} k={ks}", f"hmupdate id=e{fill}-m{k}{fin}u obj={o} d={datav(r, k) if k else '-'}"]
                if fin:
                    g.append(f"hmfinal id=e{fill}-m{k}{fin}f obj={o} k={ks}")
                g.append(f"hmfree id=e{fill}-m{k}{fin}x obj={o}")
        g += [f"garbage id=e{fill}-g kind=hash obj=7 seed=5", f"hfree id=e{fill}-gx obj=7", f"hfree id=e{fill}-gx2 obj=7",
              f"garbage id=e{fill}-g2 kind=hkdf obj=7 seed=6", f"hkfree id=e{fill}-g2x obj=7",
              f"garbage id=e{fill}-g3 kind=prng obj=7 seed=7", f"pfree id=e{fill}-g3x obj=7"]
        # HKDF: after extract, mid-block, block end, exhausted
        for j, fam in enumerate([[], [5], [32], [33, 31], [8160], [8160, 5]]):
            g.append(f"hkextract id=e{fill}-k{j}x obj={j} key={datav(r, 12)} salt={datav(r, j)}")
            for q, ln in enumerate(fam):
                g.append(f"hkexpand id=e{fill}-k{j}e{q} obj={j} info=- len={ln}")
            g.append(f"hkfree id=e{fill}-k{j}f obj={j}")
        G.append((fill, g))
        # PRNG: seeded, unseeded, after generate / feed / reseed / limit
        for pi, (ops, dels) in enumerate([
                ([dict(op='pinit', arg=0), dict(op='pfree')], ['full']),
                ([dict(op='pinit', arg=9), dict(op='pgen', arg=70), dict(op='pfree')], ['none']),
                ([dict(op='pinit', arg=0), dict(op='pfeed', arg=10), dict(op='preseed'), dict(op='plimit', arg=32), dict(op='pgen', arg=100),
                  dict(op='pfree')], ['short', 'full', 'none', 'full']),
                ([dict(op='pinit', arg=0, src='plain'), dict(op='pgen', arg=33), dict(op='pfree')], ['full'])]):
            G.append((fill, history_lines(r, f"e{fill}-p{pi}", ops, dels, obj=pi, ctl=1)))
    # HMAC object reused: a long key (hashed down), then a short one, then free
    g = []
    for j, (k1, k2) in enumerate([(100, 5), (65, 64), (200, 0), (64, 130)]):
        ka, kb = datav(r, k1), (datav(r, k2) if k2 else '-')
        g += [f"hminit id=er-m{j}i obj={j} k={ka}", f"hmupdate id=er-m{j}u obj={j} d={datav(r, 7)}", f"hmfinal id=er-m{j}f obj={j} k={ka}",
              f"hmreinit id=er-m{j}r obj={j} k={kb}", f"hmupdate id=er-m{j}v obj={j} d={datav(r, 20)}", f"hmfree id=er-m{j}x obj={j}"]
    G.append((0x00, g))
    G.append((0xFF, g))
    # the state objects the all-in-one functions keep on their own stack (searched for in the dead stack afterwards)
    g = []
    for n in (0, 1, 15, 16, 17, 40, 100):
        g.append(f"deadstate id=ds-h{n} kind=hash m={datav(r, n) if n else '-'}")
    for kl, n in ((0, 5), (20, 0), (32, 33), (64, 16), (65, 7), (100, 40)):
        g.append(f"deadstate id=ds-m{kl}-{n} kind=hmac key={datav(r, kl) if kl else '-'} m={datav(r, n) if n else '-'}")
    for kl, sl, il, ln in ((16, 0, 0, 32), (5, 20, 3, 1), (32, 64, 10, 33), (40, 65, 129, 64), (7, 3, 0, 100)):
        g.append(f"deadstate id=ds-k{ln} kind=hkdf key={datav(r, kl)} salt={datav(r, sl) if sl else '-'} info={datav(r, il) if il else '-'} len={ln}")
    for kl, sl, ln in ((8, 8, 32), (70, 3, 20), (24, 40, 1)):
        g.append(f"deadstate id=ds-p{kl} kind=pbkdf2 key={datav(r, kl)} salt={datav(r, sl)} len={ln}")
    G.append((0xAA, g))
    # clean: every offset x size, canaries on both sides
    g = []
    for o in range(8):
        for sz in list(range(0, 71)) + [255, 256, 257, 4096, 100000]:
            g.append(f"clean id=z{o}-{sz} size={sz} o={o} pl={'es'[(o + sz) % 2]}")
    G.append((0xAA, g))
    return G


def check_C20(chk):
    r = Rng(chk.seed ^ 0xC20)
    plan = erase_plan(chk, r)
    chk.cov['plan_calls'] = sum(len(g) for _, g in plan)
    # design level: the object life-cycle model has FreeErases as an invariant
    chk.add_model('MC_HashStream', tlc_model(chk.wd, 'MC_HashStream', cfg='MC_HashStream'))
    ccs = [('gcc', o) for o in ('-O0', '-O1', '-O2', '-O3', '-Os')] + [('clang', o) for o in ('-O0', '-O1', '-O2', '-O3', '-Os')]
    if not chk.thorough:
        ccs = [('gcc', '-O3'), ('gcc', '-O0'), ('clang', '-O3'), ('gcc', '-Os')]
    nfree = 0
    for cc, opt in ccs:
        for bzero in (True, False):
            has = set(HOST_HAS) if bzero else set(HOST_HAS) - {'HAVE_EXPLICIT_BZERO'}
            name = f"{cc}{opt}{'' if bzero else '-volatile'}"
            CONFIGS[name] = dict(cc=cc, flags=f"{opt} -Wall")
            exe = build_driver(chk.wd, name, has=has, extra='-DTJD_WRAP_GETRANDOM', wraps=('getrandom', 'getentropy', 'syscall'))
            # which erasure primitive did this build select?
            rc, out = sh(f"nm -u {os.path.dirname(exe)}/tinyjambu-clean.o")
            prim = 'explicit_bzero' if 'explicit_bzero' in out else ('memset_s' if 'memset_s' in out else 'volatile loop')
            chk.cov['builds'].append(f"{name}:{prim}")
            lines = []
            for gi, (fill, g) in enumerate(plan):
                lines.append(f"reset id=x{gi} fill={fill}")
                lines.extend(g)
            ev, err = run_driver(exe, lines, timeout=600)
            for e in ev:
                e['id'] = f"{name}:{e.get('id')}"
            nfree += sum(1 for e in ev if e.get('e') in ('HFree', 'HmFree', 'HkFree', 'PFree', 'Clean', 'DeadState'))
            judge_o(chk, 'TV_Obs', split_executions(ev), f"{name}: ")
            if len(chk.cov['samples']) < 3:
                chk.sample([trim(e, 8) for e in ev if e.get('e') in ('HFree', 'PFree', 'Clean')][:3])
    # the definitions agree with the public prototypes: every library source compiled with the public header pre-included
    # (a definition that takes size_t where the header says unsigned reads a register half the caller never set)
    pd = os.path.join(chk.wd, 'proto')
    write_config_h(pd, set(HOST_HAS))
    nproto = 0
    for f in sorted(glob.glob(os.path.join(REPO, 'src', '*.c')) + glob.glob(os.path.join(REPO, 'src', 'backend', '*.c'))
                    + glob.glob(os.path.join(REPO, 'src', 'random', '*.c'))):
        rc, out = sh(f"gcc -std=gnu99 -fsyntax-only -DHAVE_CONFIG_H -I{REPO}/src -I{REPO}/src/backend -I{pd} -include {REPO}/src/TinyJAMBU.h {f}")
        nproto += 1
        if rc != 0 and 'conflicting types' in out:
            first = next((ln for ln in out.splitlines() if 'conflicting types' in ln), out[:200])
            chk.violation(f"{os.path.basename(f)}: a definition disagrees with its prototype in TinyJAMBU.h: {first.strip()[-200:]}",
                          dict(kind='prototype', file=os.path.basename(f), compiler_output=out[:1500]))
    chk.cov['sources_compiled_against_public_header'] = nproto
    chk.cov['erasure_events'] = nfree
    prims = {b.split(':')[1] for b in chk.cov['builds']}
    chk.cov['erasure_primitives_exercised'] = sorted(prims)
    if not {'explicit_bzero', 'volatile loop'} <= prims:
        chk.log(f"note: only {sorted(prims)} could be built from this tree's config.h.in; the other primitive is not exercised")
    chk.finish(
        rule="histories of hash / HMAC / HKDF / PRNG objects (fresh, mid-block, block boundary, finalized, exhausted, unseeded, "
             "never initialised, freed twice) ending in the free function, objects pre-filled with 00/AA/FF/01 so that bytes the "
             "library never writes are visible; clean over every (offset 0..7, size 0..70, 255..257, 4096) with canaries on both "
             "sides; all built with gcc and clang at several optimisation levels with HAVE_EXPLICIT_BZERO defined and undefined "
             "(volatile fallback); TLC judges every event against TJMem!EraseOK (all sizeof(public state) bytes zero; exactly the "
             "requested bytes zeroed; nothing of an all-in-one function's own state object left in the dead stack); MC_HashStream "
             "carries FreeErases as an invariant of the object life cycle",
        assumptions=["memset_s and SecureZeroMemory do not exist on this platform and are not exercised",
                     "erasure is observed in the caller's memory after the call returns, and for the state objects of the all-in-one "
                     "functions in the dead stack (DeadState); other scratch values on the library's own stack (spilled "
                     "permutation words) are outside the property"])


# ----------------------------------------------------------------------------- C07
def taint_plan(chk, r):
    g = []
    lens = [0, 1, 2, 3, 4, 5, 7, 8, 9, 16, 33] + ([64, 65, 100] if chk.thorough else [])
    n = 0
    for v in (128, 192, 256):
        for mode in ('aead', 'siv'):
            for a in (0, 1, 2, 3, 4, 9):
                for m in lens:
                    n += 1
                    if not chk.thorough and (n % 2):
                        continue
                    d = dict(k=r.bytes(KLEN[v]), n=r.bytes(12), ad=r.bytes(a), m=r.bytes(m, 'rhfz'[n % 4]))
                    g.append(('enc', v, mode, d, n))
    return g


def check_C07(chk):
    r = Rng(chk.seed ^ 0xC07)
    shapes = taint_plan(chk, r)
    cfgs = [('prod-taint', 'gcc', '-O3 -g'), ('alt3-taint', 'clang', '-O3 -gdwarf-4')] + \
           ([('o2-taint', 'gcc', '-O2 -g'), ('alt-taint', 'clang', '-O2 -gdwarf-4')] if chk.thorough else [])
    total_calls = 0
    for name, cc, flags in cfgs:
        CONFIGS[name] = dict(cc=cc, flags=flags)
        exe = build_driver(chk.wd, name, extra='-DTJD_TAINT -DTJD_WRAP_GETRANDOM', wraps=('getrandom', 'getentropy', 'syscall'))
        chk.cov['builds'].append(name)
        # phase 1 (native speed is irrelevant here: run everything under valgrind): encrypt to obtain valid packets
        enc_lines = [f"enc id=t{n} mode={mode} v={v} k={hx(d['k'])} n={hx(d['n'])} ad={hx(d['ad'])} m={hx(d['m'])}"
                     for (_, v, mode, d, n) in shapes]
        plain = build_driver(chk.wd, 'prod')
        ev1, _ = run_driver(plain, enc_lines)
        outs = {e['id']: bytes(e['out']) for e in ev1 if e.get('e') == 'Enc'}
        lines = list(enc_lines)
        for (_, v, mode, d, n) in shapes:
            c = outs.get(f"t{n}")
            if c is None:
                continue
            base = f"mode={mode} v={v} k={hx(d['k'])} n={hx(d['n'])} ad={hx(d['ad'])}"
            ml = len(d['m'])
            lines.append(f"dec id=t{n}-ok {base} c={hx(c)} alias={n % 2}")
            # rejected packets: wrong tag in the first / last / every byte, wrong body
            for nm, cc_ in (('t0', flip(c, 8 * ml)), ('t7', flip(c, 8 * ml + 63)), ('tall', c[:ml] + bytes(b ^ 0xFF for b in c[ml:]))):
                lines.append(f"dec id=t{n}-{nm} {base} c={hx(cc_)} alias={(n // 2) % 2}")
            if ml:
                lines.append(f"dec id=t{n}-body {base} c={hx(flip(c, (n * 7) % (8 * ml)))}")
        for sz in (8,):
            for pl_ in (0, 1, 4, 5, 16, 33):
                t1 = r.bytes(sz)
                for nm, t2 in (('eq', t1), ('d0', flip(t1, 0)), ('d7', flip(t1, 63)), ('dall', bytes(b ^ 0x5A for b in t1))):
                    lines.append(f"checktag id=ct{pl_}-{nm} pt={datav(r, pl_)} t1={hx(t1)} t2={hx(t2)}")
        for ln in (0, 1, 15, 16, 17, 33, 64):
            lines.append(f"hash id=th{ln} m={datav(r, ln, 'rz'[ln % 2]) if ln else '-'}")
        for kl in (0, 1, 32, 63, 64, 65, 100):
            for ml in (0, 5, 16, 40):
                lines.append(f"hmac id=tm{kl}-{ml} k={datav(r, kl, 'rf'[ml % 2]) if kl else '-'} m={datav(r, ml) if ml else '-'}")
        for ln in (1, 32, 33, 70):
            lines.append(f"hkdf id=tk{ln} len={ln} key={datav(r, 20)} salt={datav(r, 13)} info=0102")
            lines.append(f"hkdf id=tkl{ln} len={ln} key={datav(r, 90)} salt={datav(r, 80)} info=-")
        for cnt in (1, 2, 3):
            for pwl in (5, 64, 65, 100):
                lines.append(f"pbkdf2 id=tp{cnt}-{pwl} len=40 count={cnt} pw={datav(r, pwl, 'rz'[cnt % 2])} salt={datav(r, 8)}")
        # inputs of equal length (a comparison between two inputs is the kind of thing that only happens then)
        for n in (8, 16, 33):
            lines.append(f"pbkdf2 id=tpe{n} len=33 count=2 pw={datav(r, n)} salt={datav(r, n)}")
            lines.append(f"hmac id=tme{n} k={datav(r, n)} m={datav(r, n)}")
            lines.append(f"hkdf id=tke{n} len=40 key={datav(r, n)} salt={datav(r, n)} info={datav(r, n)}")
        # incremental interfaces: hash, HMAC (short and > 64-byte keys), HKDF
        for o, (kl, m1, m2) in enumerate([(5, 3, 20), (64, 16, 1), (100, 17, 33), (0, 0, 40)]):
            ks = datav(r, kl) if kl else '-'
            lines += [f"hinit id=ti{o}a obj={o}", f"hupdate id=ti{o}b obj={o} d={datav(r, m1) if m1 else '-'}", f"hupdate id=ti{o}c obj={o} d={datav(r, m2)}",
                      f"hfinal id=ti{o}d obj={o}",
                      # second and third use of the same object: reinit after finalize, and in the middle of a message
                      f"hreinit id=ti{o}d2 obj={o}", f"hupdate id=ti{o}d3 obj={o} d={datav(r, m1 + 3)}", f"hreinit id=ti{o}d4 obj={o}",
                      f"hupdate id=ti{o}d5 obj={o} d={datav(r, m2)}", f"hfinal id=ti{o}d6 obj={o}",
                      f"hinit id=ti{o}d7 obj={o}", f"hupdate id=ti{o}d8 obj={o} d={datav(r, 9)}", f"hfree id=ti{o}d9 obj={o}",
                      f"hminit id=ti{o}e obj={o} k={ks}", f"hmupdate id=ti{o}f obj={o} d={datav(r, m2)}",
                      f"hmreinit id=ti{o}f2 obj={o} k={ks}", f"hmupdate id=ti{o}f3 obj={o} d={datav(r, m1 + 1)}",
                      f"hmfinal id=ti{o}g obj={o} k={ks}", f"hmfree id=ti{o}h obj={o}",
                      f"hkextract id=ti{o}i obj={o} key={datav(r, 10 + kl)} salt={ks}", f"hkexpand id=ti{o}j obj={o} info=01 len={m1 + 30}",
                      f"hkexpand id=ti{o}k obj={o} info=01 len={m2 + 40}", f"hkfree id=ti{o}l obj={o}"]
            if o == 1:
                # all 255 blocks, then a refused request, then another one
                lines += [f"hkextract id=tx{o}i obj={o} key={datav(r, 24)} salt={datav(r, 5)}", f"hkexpand id=tx{o}j obj={o} info=02 len=8160",
                          f"hkexpand id=tx{o}k obj={o} info=02 len=1", f"hkexpand id=tx{o}m obj={o} info=02 len=40", f"hkfree id=tx{o}l obj={o}"]
        # PRNG: entropy and state are secret; cross the reseed limit (automatic reseed) and reseed explicitly
        for pi, dels in enumerate([['full'] * 6, ['full', 'short', 'full', 'none', 'full', 'full'], ['short', 'full', 'short', 'full', 'full', 'full'],
                                   ['none', 'short', 'full', 'full', 'full', 'full']]):
            ops = [dict(op='pinit', arg=5), dict(op='pgen', arg=32), dict(op='pgen', arg=1056), dict(op='pfeed', arg=9), dict(op='preseed'),
                   dict(op='plimit', arg=32), dict(op='pgen', arg=100), dict(op='preseed'), dict(op='pgen', arg=16)]
            lines.extend(history_lines(r, f"tr{pi}", ops, dels, obj=pi))
        # the same through the library's built-in system source (NULL callback / tinyjambu_prng_init): what the OS delivers is secret
        for pi, (src, dels) in enumerate([('null', ['full'] * 5), ('plain', ['full', 'full', 'none', 'full', 'full'])]):
            ops = [dict(op='pinit', arg=0, src=src), dict(op='pgen', arg=40), dict(op='preseed'), dict(op='pgen', arg=1056), dict(op='pfeed', arg=3),
                   dict(op='preseed'), dict(op='pgen', arg=16)]
            lines.extend(history_lines(r, f"ts{pi}", ops, dels, obj=4 + pi))
        total_calls += len(lines)
        # units that must stay in one process: a PRNG history with its script; everything else is stateless
        units, cur = [], None
        for ln in lines:
            if ln.startswith('script'):
                cur = [ln]
                units.append(cur)
            elif re.match(r'(pinit|pgen|pfeed|preseed|plimit|pfree)\b', ln) and cur is not None:
                cur.append(ln)
            elif re.match(r'(hupdate|hfinal|hreinit|hfree|hminit|hmreinit|hmupdate|hmfinal|hmfree|hkextract|hkexpand|hkfree)\b', ln) and units:
                units[-1].append(ln)          # stays with the hinit that opened the object history
            else:
                units.append([ln])
        nparts = min(NCPU, max(1, len(units) // 20))
        parts = [[ln for u in units[i::nparts] for ln in u] for i in range(nparts)]

        def vg(part_i):
            i, part = part_i
            log = os.path.join(chk.wd, f"taint-{name}-{i}.log")
            ev, err = run_driver(exe, [f"reset id=r{i}"] + part, timeout=1800,
                                 prefix=['valgrind', '-q', '--tool=memcheck', '--error-exitcode=0', f'--log-file={log}'])
            return ev, (open(log).read() if os.path.exists(log) else '')
        with ThreadPoolExecutor(NCPU) as ex:
            res = list(ex.map(vg, list(enumerate([p for p in parts if p]))))
        evs, logs = [], ''
        for ev, txt in res:
            evs.extend(ev)
            logs += txt
        ntaint = sum(1 for e in evs if 'taint' in e)
        if ntaint < 50:
            raise MachineryError("taint instrumentation inactive (valgrind client requests not counted)")
        first = re.search(r'(Conditional jump or move depends on uninitialised value\(s\)|Use of uninitialised value of size \d+)(\n==\d+==.*){1,6}', logs)
        flagged_dec = [e for e in evs if e.get('taint') and e.get('e') in ('Dec', 'DecTag', 'CheckTag')]
        if flagged_dec and not hasattr(chk, '_verdict_adj'):
            # memcheck reported inside a decrypt: is it only the (public) accept/reject verdict? ask the second observer
            chk.log(f"memcheck reports inside {len(flagged_dec)} decrypt/check_tag calls: adjudicating with the address-trace observer")
            chk._verdict_adj = lackey_differential(chk, r, only=('dec', 'checktag'), judge=False)
            chk.cov['verdict_branch_adjudicated'] = chk._verdict_adj
        for e in evs:
            e['id'] = f"{name}:{e.get('id')}"
            if e.get('taint'):
                e['where'] = first.group(0)[:600] if first else ''
                if e.get('e') in ('Dec', 'DecTag', 'CheckTag') and getattr(chk, '_verdict_adj', False):
                    e['verdictonly'] = 1
        judge_o(chk, 'TV_Obs', split_executions(evs), f"{name}: ")
        if len(chk.cov['samples']) < 3:
            chk.sample(trim([e for e in evs if e.get('e') == 'Dec'][3], 8))
    chk.cov['plan_calls'] = total_calls
    if chk.thorough or os.environ.get('TJ_LACKEY'):
        lackey_differential(chk, r)
    chk.finish(
        rule="every API (6 ciphers accept and reject paths incl. tag-only packets and tags wrong in the first / last / all bytes, "
             "check_tag, hash, HMAC with keys <= 64 and > 64, HKDF, PBKDF2 counts 1..3, PRNG across automatic and explicit "
             "reseeds) over public shapes (length residues, key-length classes) is executed under valgrind memcheck on the "
             "optimised objects (gcc -O3, clang -O3) with keys, plaintexts, tags, passwords, entropy and derived state marked "
             "undefined for the duration of the call; memcheck reports every conditional branch and every memory address that "
             "depends on them; the count of reports inside each call is logged and TLC (TV_Obs, TJMem!TaintOK) requires it to be "
             "zero; the accept/reject result is declassified only after the call returns",
        assumptions=["memcheck tracks definedness through registers and memory bit-precisely but does not model instruction timing",
                     "the assembly back ends are covered by the ISA models of C05, not here"])


def lackey_differential(chk, r, only=None, judge=True):
    """2-safety, observed: for each public shape the instruction-address / data-address trace inside the library must
    not depend on the secrets (valgrind lackey on the -O3 objects; thorough tier)."""
    sh(f"gcc -O2 -o {chk.wd}/lkfilter {VERIF}/harness/lkfilter.c", check=True)
    CONFIGS['lk'] = dict(cc='gcc', flags='-O3 -g -static')
    exe = build_driver(chk.wd, 'lk', extra='-DTJD_WRAP_GETRANDOM', wraps=('getrandom', 'getentropy', 'syscall'))
    plain = build_driver(chk.wd, 'prod')
    rc, out = sh(f"nm -n {exe}")
    syms = [(int(a, 16), n) for a, t, n in (ln.split()[:3] for ln in out.splitlines() if len(ln.split()) >= 3) if t in 'tT']
    ranges = [f"{a:x}-{syms[i + 1][0]:x}" for i, (a, n) in enumerate(syms[:-1]) if n.startswith('tinyjambu_')]
    if len(ranges) < 20:
        raise MachineryError("cannot locate the library's functions in the traced binary")
    jobs = []      # (api, pub, sec, plan lines)

    def secrets(n, cls_list):
        return [r.bytes(n, c) for c in cls_list]
    for v in (128, 192, 256):
        for mode in ('aead', 'siv'):
            for (a, m) in ((0, 0), (3, 5), (4, 8), (9, 14)):
                nonce, ad = r.bytes(12), r.bytes(a)
                variants = []
                for si, cls in enumerate(['r', 'z', 'f', 'h']):
                    k, msg = r.bytes(KLEN[v], cls), r.bytes(m, cls)
                    variants.append((f"s{si}", k, msg))
                variants.append(("s0again", variants[0][1], variants[0][2]))
                for sec, k, msg in variants:
                    base = f"mode={mode} v={v} k={hx(k)} n={hx(nonce)} ad={hx(ad)}"
                    jobs.append((f"enc-{mode}-{v}", f"ad{a}m{m}", sec, [f"enc id=x {base} m={hx(msg)}"]))
                    ev, _ = run_driver(plain, [f"enc id=x {base} m={hx(msg)}"])
                    c = bytes(ev[0]['out'])
                    jobs.append((f"dec-{mode}-{v}", f"ad{a}m{m}-accept", sec, [f"dec id=x {base} c={hx(c)}"]))
                    for nm, cc in (('t0', flip(c, 8 * m)), ('t7', flip(c, 8 * m + 63)), ('tall', c[:m] + bytes(b ^ 0xA5 for b in c[m:]))):
                        jobs.append((f"dec-{mode}-{v}", f"ad{a}m{m}-reject", f"{sec}-{nm}", [f"dec id=x {base} c={hx(cc)}"]))
    for n in (0, 5, 16, 33):
        for si, cls in enumerate(['r', 'z', 'f', 'r']):
            jobs.append(("hash", f"len{n}", f"s{si}", [f"hash id=x m={datav(r, n, cls) if n else '-'}"]))
    for kl in (5, 64, 65, 100):
        for si, cls in enumerate(['r', 'z', 'f', 'r']):
            jobs.append(("hmac", f"k{kl}m20", f"s{si}", [f"hmac id=x k={datav(r, kl, cls)} m={datav(r, 20, cls)}"]))
            jobs.append(("hkdf", f"k{kl}len40", f"s{si}", [f"hkdf id=x len=40 key={datav(r, kl, cls)} salt={datav(r, 13, cls)} info=01"]))
            jobs.append(("pbkdf2", f"p{kl}c2", f"s{si}", [f"pbkdf2 id=x len=33 count=2 pw={datav(r, kl, cls)} salt={datav(r, 8, cls)}"]))
    for sz, pl_ in ((8, 0), (8, 5)):
        for si in range(3):
            t1 = r.bytes(8)
            for nm, t2 in (('eq', t1), ('d0', flip(t1, 0)), ('d7', flip(t1, 63))):
                jobs.append(("checktag", f"pt{pl_}-{'accept' if nm == 'eq' else 'reject'}", f"s{si}-{nm}",
                             [f"checktag id=x pt={datav(r, pl_)} t1={hx(t1)} t2={hx(t2)}"]))
    for si, cls in enumerate(['r', 'z', 'f']):
        ops = [dict(op='pinit', arg=5), dict(op='plimit', arg=64), dict(op='pgen', arg=100), dict(op='pfeed', arg=9), dict(op='preseed'), dict(op='pgen', arg=16)]
        rr = Rng(1000 + si)
        jobs.append(("prng", "history1", f"s{si}", history_lines(rr, "x", ops, ['full', 'full', 'full', 'full'], obj=0)))

    def one(job):
        api, pub, sec, lines = job
        cmd = (f"setarch -R valgrind --tool=lackey --trace-mem=yes --log-fd=9 {exe} 9>&1 1>/dev/null 2>/dev/null "
               f"| {chk.wd}/lkfilter {' '.join(ranges)}")
        p = subprocess.run(cmd, shell=True, input='\n'.join(lines) + '\n', stdout=subprocess.PIPE, text=True, timeout=600,
                           env={'PATH': os.environ.get('PATH', '/usr/bin:/bin')})
        try:
            n, h = p.stdout.split()
            return dict(e='Obs', id=f"{api}:{pub}:{sec}", api=api, pub=pub, sec=sec, n=int(n), h=h)
        except Exception:
            return dict(e='Fault', id=f"{api}:{pub}:{sec}", op='lackey', sig=p.returncode, buf='none', rel=0)
    if only:
        jobs = [j for j in jobs if j[0].startswith(only)]
    with ThreadPoolExecutor(NCPU) as ex:
        evs = list(ex.map(one, jobs))
    if any(e['e'] == 'Obs' and e['n'] < 50 for e in evs):
        raise MachineryError("lackey traces are empty: the observer does not work here")
    # the observer must be deterministic: the same secret run twice gives the same trace
    first = {(e['api'], e['pub']): e for e in evs if e.get('sec') == 's0'}
    for e in evs:
        if e.get('sec') == 's0again' and (first[(e['api'], e['pub'])]['h'] != e['h']):
            raise MachineryError("lackey observer is not deterministic on this host; differential not usable")
    chk.cov['lackey_executions'] = len(evs)
    chk.cov['lackey_shapes'] = len({(e.get('api'), e.get('pub')) for e in evs})
    if not judge:
        res = validate(chk.wd, 'TV_Leak', [[{"e": "Reset", "id": "lk"}] + evs], shards=1)
        if res['errors']:
            raise MachineryError("TV_Leak failed: " + res['errors'][0][:800])
        chk.cov['states'] += res['states']; chk.cov['transitions'] += res['transitions']
        return len(res['mismatches']) == 0
    judge_o(chk, 'TV_Leak', [[{"e": "Reset", "id": "lk"}] + evs], 'lackey: ')
    return True


# ----------------------------------------------------------------------------- C19
HEAP_FNS = ["malloc", "calloc", "realloc", "free", "aligned_alloc", "posix_memalign", "strdup", "mmap", "sbrk", "brk", "reallocarray",
            "valloc", "memalign"]


def symbol_table(objs):
    """writable static storage and imports of the built objects"""
    globs, imports, detail = set(), set(), []
    for o in objs:
        rc, out = sh(f"objdump -h {o}")
        for m in re.finditer(r'^\s*\d+\s+(\.\S+)\s+([0-9a-f]+)\s', out, re.M):
            sec, size = m.group(1), int(m.group(2), 16)
            if size and re.match(r'\.(data|bss|tbss|tdata|lbss|ldata)(\.|$)', sec) and not sec.startswith('.data.rel.ro'):
                globs.add(f"{os.path.basename(o)}:{sec}")
                detail.append(f"{os.path.basename(o)} section {sec} size {size}")
        rc, out = sh(f"nm {o}")
        for line in out.splitlines():
            p = line.split()
            if len(p) >= 2 and p[-2] in ('b', 'B', 'd', 'D', 'C', 's', 'S', 'g', 'G'):
                globs.add(f"{os.path.basename(o)}:{p[-1]}")
                detail.append(f"{os.path.basename(o)} symbol {p[-1]} type {p[-2]}")
            if len(p) == 2 and p[0] == 'U':
                imports.add(p[1])
    return sorted(globs), sorted(imports), detail


def check_C19(chk):
    # (1) Globals and Imports from the objects built from the working tree (production flags, static and PIC)
    globs, imports, detail = set(), set(), []
    for cfg in ('prod', 'shared', 'dbg'):
        od, objs = build_lib(chk.wd, cfg)
        g, i, d = symbol_table(objs)
        globs |= set(g); imports |= set(i); detail += d
        chk.cov['builds'].append(cfg)
    globs, imports = sorted(globs), sorted(i for i in imports if not i.startswith('tinyjambu_'))
    chk.cov['globals_found'] = globs
    chk.cov['imports_found'] = imports
    sd = spec_copy(chk.wd)
    fmt = lambda xs: '{' + ', '.join(json.dumps(x) for x in xs) + '}'
    nthr, ncalls = (3, 3) if not chk.thorough else (4, 3)
    open(os.path.join(sd, 'MC_Conc_gen.cfg'), 'w').write(
        f"SPECIFICATION Spec\nCONSTANTS Threads = {{{', '.join(str(t) for t in range(1, nthr + 1))}}}  NCalls = {ncalls}\n"
        f"  Globals = {fmt(globs)}\n  Imports = {fmt(imports)}\n  HeapFns = {fmt(HEAP_FNS)}\n"
        "INVARIANT SerialEquivalence\nINVARIANT NoHeap\nINVARIANT NoGlobals\nCHECK_DEADLOCK FALSE\n")
    rm = tlc_model(chk.wd, 'MC_Conc', cfg='MC_Conc_gen', workers=4)
    if rm['ok']:
        chk.add_model('MC_Conc(Globals, Imports from the built objects)', rm)
    else:
        if not re.search(r'Invariant (SerialEquivalence|NoHeap|NoGlobals) is violated|invariant of (NoHeap|NoGlobals) is equal to FALSE', rm['out']):
            raise MachineryError("MC_Conc failed to run:\n" + rm['out'][-2000:])
        mm = re.search(r'Invariant (\w+) is violated|invariant of (\w+) is equal to FALSE', rm['out'])
        which = mm.group(1) or mm.group(2)
        trace = '\n'.join(l for l in rm['out'].splitlines() if l.startswith('State ') or 'result' in l)[:1500]
        chk.cov['states'] += max(1, rm['distinct']); chk.cov['transitions'] += max(1, rm['generated'])
        chk.violation(f"MC_Conc: invariant {which} is violated with the symbol table of the built objects: writable static storage "
                      f"{globs}, heap imports {sorted(set(imports) & set(HEAP_FNS))}",
                      dict(model='MC_Conc', globals=globs, imports=imports, detail=detail[:20], interleaving=trace))
    # (2) dynamic: concurrent = serial on a ThreadSanitizer build
    od, objs = build_lib(chk.wd, 'tsan')
    chk.cov['builds'].append('tsan')
    exe = os.path.join(od, 'tjthreads')
    sh(f"clang -O1 -g -fsanitize=thread -I{REPO}/src -I{od} {VERIF}/harness/tjthreads.c {' '.join(objs)} -Wl,--wrap=getrandom -lpthread -o {exe}", check=True)
    nt, rounds = (16, 6) if not chk.thorough else (16, 40)
    env = dict(os.environ); env['TSAN_OPTIONS'] = 'halt_on_error=0:report_signal_unsafe=0:exitcode=0'
    p = subprocess.run(['setarch', '-R', exe, str(nt), str(rounds), str(chk.seed % 1000)], stdout=subprocess.PIPE, stderr=subprocess.PIPE,
                       text=True, timeout=1800, env=env)
    evs = [json.loads(x) for x in p.stdout.splitlines() if x.startswith('{')]
    if not evs or evs[-1].get('e') != 'End':
        evs.append({"e": "Fault", "id": "threads", "op": "tjthreads", "sig": p.returncode, "buf": "none", "rel": 0, "stderr": p.stderr[-400:]})
    else:
        evs.pop()
    m = re.search(r'WARNING: ThreadSanitizer: (.*)(\n.*){0,12}', p.stderr)
    if m:
        evs.append({"e": "San", "id": "tsan", "text": m.group(0)[:900]})
    if 'FATAL: ThreadSanitizer' in p.stderr and not m:
        raise MachineryError("ThreadSanitizer could not run: " + p.stderr[:400])
    chk.cov['threads'] = nt
    chk.cov['rounds'] = rounds
    judge_o(chk, 'TV_Conc', [evs], 'tsan: ')
    chk.sample(evs[0])
    # (3) history independence, single-threaded: the same calls alone, and after / between unrelated calls that reuse
    #     the same buffer addresses and lengths
    exe2 = build_driver(chk.wd, 'prod')
    r = Rng(chk.seed ^ 0xC19)

    def unrelated(tag):
        kl = r.choice([70, 100, 200])
        return [f"hmac id=u{tag}a k={datav(r, kl)} m={datav(r, 9)}", f"pbkdf2 id=u{tag}b len=33 count=2 pw={datav(r, kl)} salt={datav(r, 5)}",
                f"enc id=u{tag}c mode=aead v=256 k={r.hex(16)}{r.hex(16)} n={r.hex(12)} ad=- m={datav(r, 5)}",
                f"hkdf id=u{tag}d len=20 key={datav(r, 8)} salt={datav(r, kl)} info=-",
                f"enc id=u{tag}e mode=siv v=256 k={r.hex(32)} n={r.hex(12)} ad={datav(r, 3)} m={datav(r, 9)}"]
    base = []
    k16 = r.bytes(16)
    for kl in (65, 70, 100, 200):
        base += [f"hmac id=b-h{kl} k={datav(r, kl)} m={datav(r, 20)}", f"pbkdf2 id=b-p{kl} len=40 count=3 pw={datav(r, kl)} salt={datav(r, 6)}",
                 f"hkdf id=b-k{kl} len=50 key={datav(r, 10)} salt={datav(r, kl)} info=01"]
    for v in (128, 192, 256):
        base += [f"enc id=b-e{v}x mode=aead v={v} k={hx(k16 + r.bytes(KLEN[v] - 16))} n={r.hex(12)} ad={datav(r, 6)} m={datav(r, 13)}",
                 f"enc id=b-s{v}x mode=siv v={v} k={hx(k16 + r.bytes(KLEN[v] - 16))} n={r.hex(12)} ad={datav(r, 6)} m={datav(r, 13)}"]
    base += [f"hash id=b-hash m={datav(r, 40)}"]
    lines = ["reset id=base"] + base + ["reset id=again"]
    for i, ln in enumerate(base):
        lines += unrelated(i)
        lines.append(ln)
    ev, _ = run_driver(exe2, lines)
    xs = split_executions(ev)
    for e in xs[0]:
        e['base'] = 1
    judge_o(chk, 'TV_Conc', [xs[0] + [e for e in xs[1] if e.get('e') != 'Reset']] if len(xs) > 1 else xs, 'history: ')
    # (4) the library as one system: cross-family multi-object histories generated by TLC from MC_System, replayed and
    #     validated by every trace specification at once (foreign events are stuttering steps for each of them)
    chk.add_model('MC_System', tlc_model(chk.wd, 'MC_System', cfg='MC_System', workers=4))
    from fam_hash import annotate
    from fam_prng import annotate_ctl, build_prng_driver
    plans = sim_plans(chk, 'MC_System', 'MC_System_sim', 30 if chk.thorough else 10, 30, chk.seed % 100000)
    exe3 = build_prng_driver(chk)
    groups = []
    for pi, p in enumerate(plans):
        g = ["script clear=1 items=" + '/'.join(script_items(r, [r.choice(['full', 'full', 'short', 'none']) for _ in range(12)]))]
        keys = {}
        for k, o in enumerate(p):
            i, kind, ob, n = f"y{pi}-{k}", o['kind'], o['obj'], o['arg']
            if kind == 'hash':
                g.append({'init': f"hinit id={i} obj={ob}", 'use': f"hupdate id={i} obj={ob} d={datav(r, n) if n else '-'} op=0",
                          'final': f"hfinal id={i} obj={ob} op=0", 'free': f"hfree id={i} obj={ob}"}[o['op']])
            elif kind == 'hmac':
                if o['op'] == 'init':
                    keys[ob] = datav(r, r.choice([5, 32, 64, 70]))
                kk = keys.get(ob, '-')
                g.append({'init': f"hminit id={i} obj={ob} k={kk}", 'use': f"hmupdate id={i} obj={ob} d={datav(r, n) if n else '-'}",
                          'final': f"hmfinal id={i} obj={ob} k={kk}", 'free': f"hmfree id={i} obj={ob}"}[o['op']])
            elif kind == 'hkdf':
                if o['op'] == 'final':
                    continue
                g.append({'init': f"hkextract id={i} obj={ob} key={datav(r, 12)} salt={datav(r, 9)}",
                          'use': f"hkexpand id={i} obj={ob} info=0a0b len={n}", 'free': f"hkfree id={i} obj={ob}"}[o['op']])
            elif kind == 'prng':
                if o['op'] == 'final':
                    continue
                g.append({'init': f"pinit id={i} obj={ob} custom={datav(r, 3)} src=cb ctl=0",
                          'use': (f"pgen id={i} obj={ob} size={n} ctl=0" if k % 3 else f"pfeed id={i} obj={ob} d={datav(r, n) if n else '-'} ctl=0"),
                          'free': f"pfree id={i} obj={ob}"}[o['op']])
            else:
                f = o['op']
                if f.startswith(('enc', 'siv')):
                    v = int(f[3:])
                    g.append(f"enc id={i} mode={'aead' if f.startswith('enc') else 'siv'} v={v} k={r.hex(v // 8)} n={r.hex(12)} "
                             f"ad={datav(r, n % 7) if n % 7 else '-'} m={datav(r, n) if n else '-'} keep=0")
                elif f == 'hash':
                    g.append(f"hash id={i} m={datav(r, n) if n else '-'} learn=0")
                elif f == 'hmac':
                    g.append(f"hmac id={i} k={datav(r, 70)} m={datav(r, n) if n else '-'}")
                elif f == 'hkdf':
                    g.append(f"hkdf id={i} len={n + 1} key={datav(r, 9)} salt={datav(r, 70)} info=-")
                elif f == 'pbkdf2':
                    g.append(f"pbkdf2 id={i} len={n + 1} count=2 pw={datav(r, 70)} salt={datav(r, 4)}")
        groups.append(g)
    sx = run_exec_groups(exe3, groups)
    annotate(sx, groups)
    annotate_ctl(sx, groups)
    chk.cov['system_histories'] = len(groups)
    from fam_cipher import steps_cost
    from fam_hash import hcost
    from fam_prng import pcost
    for module, cost in (('TV_Cipher', steps_cost), ('TV_Hash', hcost), ('TV_Prng', pcost), ('TV_Obs', lambda e: 1)):
        res = validate(chk.wd, module, sx, cost=cost)
        chk.add_validation(module, res, sx)
        for (xi, ev, mm) in res['mismatches'][:4]:
            chk.violation(f"system history: event {ev.get('id')} ({ev.get('e')}) rejected by {module}: {json.dumps(trim(mm.get('expected'), 20))[:200]}",
                          dict(trace_spec=module, plan=[f"reset id=x{xi}"] + groups[xi], event=trim(ev, 40), expected=trim(mm.get('expected'), 40)))
    chk.sample(plans[0][:8])
    chk.finish(
        rule="MC_Conc: TLC explores every interleaving of 3 threads x 3 calls on disjoint objects where each call may touch every "
             "cell of Globals and the heap if imported; Globals and Imports are computed from the object files built from the "
             "working tree (writable sections and symbols, undefined symbols; static, PIC and -O0 builds), so SerialEquivalence, "
             "NoGlobals and NoHeap are decided for this code; dynamically a 16-thread workload over all API families on a "
             "ThreadSanitizer build must give per-thread results equal to serial execution (TV_Conc), system-seeded generators "
             "must differ, and calls repeated after / between unrelated calls (same lengths, reused addresses) must give the "
             "same outputs; MC_System (Isolation, UsedWhileLive) generates cross-family multi-object histories that are "
             "replayed and validated by TV_Cipher, TV_Hash, TV_Prng and TV_Obs at once",
        assumptions=["TLC does not schedule native threads: instruction-level interleavings of the real code are sampled by the OS; "
                     "the deterministic part is the symbol-table binding",
                     "function-local static const tables (read-only sections) are not state"])
