#!/usr/bin/env python3
"""Self-test of the machinery (DESIGN.md section 11): demonstrates that the specification is BOUND to the code.

  1. corrupted traces: for every trace specification a small genuine trace is recorded from the real library,
     then one logged field is flipped / one event dropped / a Fault event inserted; TLC must accept the genuine
     trace and reject each corrupted one at exactly the corrupted line.
  2. broken designs: each exhaustive model is run on a deliberately wrong variant (hoisted reseed test, XOR tag
     accumulator, writable global, counter that wraps to block 256, update that forgets to advance) and TLC /
     Apalache must produce a counterexample.
Not part of quick/thorough; exit 0 iff every expectation holds.
"""
import os, sys, json, copy, re, shutil
sys.path.insert(0, os.path.dirname(os.path.abspath(__file__)))
from tjv import *

FAILS = []


def expect(cond, what):
    print(('ok   ' if cond else 'FAIL ') + what, flush=True)
    if not cond:
        FAILS.append(what)


def rejects_at(wd, module, events, line):
    res = validate(wd, module, [events], shards=1)
    lines = sorted(mm.get('mismatch') for (_, _, mm) in res['mismatches'])
    return (line in lines) and not res['errors'], lines, res


def corrupt_suite(wd, module, events, mutations):
    res = validate(wd, module, [events], shards=1)
    expect(not res['mismatches'] and not res['errors'], f"{module}: genuine trace of {len(events)} events accepted")
    for name, fn in mutations:
        ev = copy.deepcopy(events)
        line = fn(ev)
        ok, lines, r = rejects_at(wd, module, ev, line)
        expect(ok, f"{module}: {name} -> rejected at line {line} (TLC flagged {lines[:4]})")


def model_variant(wd, module, cfg, edits, expect_pat, what, extra_cfg=None, editfile=None):
    """copy the spec dir, apply textual edits to module, run TLC, expect a violation matching expect_pat"""
    sd = os.path.join(wd, 'variant-' + re.sub(r'\W', '', what)[:24])
    shutil.copytree(SPEC, sd)
    for f in os.listdir(os.path.join(sd, 'isa')):
        shutil.copy(os.path.join(sd, 'isa', f), os.path.join(sd, f))
    p = os.path.join(sd, (editfile or module) + '.tla')
    s = open(p).read()
    for a, b in edits:
        if a not in s:
            expect(False, f"{what}: edit anchor not found ({a[:40]})")
            return
        s = s.replace(a, b)
    open(p, 'w').write(s)
    if extra_cfg:
        open(os.path.join(sd, cfg + '.cfg'), 'w').write(extra_cfg)
    md = os.path.join(sd, 'md')
    os.makedirs(md, exist_ok=True)
    rc, out = sh(f"{_java_cmd()} -workers 4 -metadir {md} -config {cfg}.cfg {module}.tla".replace("java ", f"java -Djava.io.tmpdir={md} ", 1),
                 cwd=sd, timeout=900)
    expect(re.search(expect_pat, out) is not None, f"{what}: TLC refutes the broken design ({expect_pat})")


def _java_cmd():
    return f"java -XX:+UseParallelGC -Xmx6g -cp {TLAJAR} tlc2.TLC -noGenerateSpecTE"


def main():
    wd = workdir('tjv-selftest-')
    exe = build_driver(wd, 'prod', extra='-DTJD_WRAP_GETRANDOM', wraps=('getrandom', 'getentropy', 'syscall'))
    K = '000102030405060708090a0b0c0d0e0f'
    N = '0a0b0c0d0e0f101112131415'
    # ---------------- TV_Cipher
    ev, _ = run_driver(exe, ["reset id=r", f"enc id=e1 mode=aead v=128 k={K} n={N} ad=0102 m=0a0b0c0d0e keep=1",
                             f"enc id=e2 mode=siv v=128 k={K} n={N} ad=01 m=aabbccddeeff0011 keep=1"])
    c1 = bytes(ev[1]['out']).hex()
    ev, _ = run_driver(exe, ["reset id=r", f"enc id=e1 mode=aead v=128 k={K} n={N} ad=0102 m=0a0b0c0d0e keep=1",
                             f"dec id=d1 mode=aead v=128 k={K} n={N} ad=0102 c={c1}",
                             f"dec id=d2 mode=aead v=128 k={K} n={N} ad=0103 c={c1}",
                             f"enc id=e2 mode=siv v=128 k={K} n={N} ad=01 m=aabbccddeeff0011 keep=1",
                             "checktag id=c1 pt=0102 t1=0000000000000001 t2=0000000000000001"])

    def m_out(e): e[1]['out'][3] ^= 1; return 2
    def m_res(e): e[3]['res'] = 0; return 4
    def m_zero(e): e[3]['mout'][1] = 7; return 4
    def m_clen(e): e[1]['clen'] += 1; return 2
    def m_drop(e): del e[1]; return 2          # the Dec of a packet that was never produced: spec still judges it -> accepted; so corrupt instead
    def m_fault(e): e.insert(3, {"e": "Fault", "id": "x", "op": "dec", "sig": 11, "buf": "c", "rel": 13}); return 4
    def m_canary(e): e[2]['canary'] = 0; return 3
    def m_tag(e): e[5]['res'] = -1; return 6
    corrupt_suite(wd, 'TV_Cipher', ev, [("one ciphertext byte flipped", m_out), ("reject reported as accept", m_res),
                                        ("rejected plaintext not zero", m_zero), ("clen off by one", m_clen),
                                        ("Fault event inserted", m_fault), ("canary broken", m_canary), ("check_tag verdict flipped", m_tag)])
    # ---------------- TV_Hash
    ev, _ = run_driver(exe, ["reset id=r", "hash id=h0 m=0102030405060708090a0b0c0d0e0f1011", "hinit id=h1 obj=0", "hupdate id=h2 obj=0 d=0102030405",
                             "hupdate id=h3 obj=0 d=060708090a0b0c0d0e0f1011", "hfinal id=h4 obj=0", "hfree id=h5 obj=0",
                             "hmac id=m1 k=0102 m=0304", "hkextract id=k1 obj=0 key=01 salt=02", "hkexpand id=k2 obj=0 info=03 len=40",
                             "pbkdf2 id=p1 len=33 count=2 pw=70 salt=73"])
    for e in ev:
        if e['e'] == 'Hash': e['learn'] = 0
        if e['e'] in ('HUpdate', 'HFinal'): e['op'] = 0

    def h_dig(e): e[5]['out'][0] ^= 0x80; return 6
    def h_chunk(e): e[3]['d'][0] ^= 1; return 6      # a changed chunk changes the expected digest at finalize
    def h_free(e): e[6]['nonzero'] = 4; return 7
    def h_mac(e): e[7]['out'][31] ^= 1; return 8
    def h_kdf(e): e[9]['out'][33] ^= 1; return 10
    def h_pb(e): e[10]['out'][32] ^= 2; return 11
    def h_drop(e): del e[4]; return 5                # dropping an update: the finalize (now line 5) no longer matches
    def h_evals(e): e[2]['evals'] = 2; return 3      # the object argument was evaluated twice (a macro naming it twice)
    corrupt_suite(wd, 'TV_Hash', ev, [("digest bit flipped", h_dig), ("logged chunk altered", h_chunk), ("free leaves 4 bytes", h_free),
                                      ("HMAC byte flipped", h_mac), ("HKDF second block byte flipped", h_kdf),
                                      ("PBKDF2 33rd byte flipped", h_pb), ("update event dropped", h_drop), ("argument evaluated twice", h_evals)])
    # a relocated state object: the move itself is an event; without it the finalize on the new object has no history
    evm, _ = run_driver(exe, ["reset id=r", "hinit id=a obj=0", "hupdate id=b obj=0 d=010203", "hmove id=m obj=0 to=3", "hupdate id=c obj=3 d=0405",
                              "hfinal id=f obj=3"])
    for e in evm:
        if e['e'] in ('HUpdate', 'HFinal'): e['op'] = 0

    def hm_drop(e): del e[3]; return 4
    corrupt_suite(wd, 'TV_Hash', evm, [("move event dropped", hm_drop)])
    # ---------------- TV_Prng
    seed = '11' * 32
    ev, _ = run_driver(exe, ["reset id=r", f"script clear=1 items=full:{seed}/short:0102/full:{'22' * 32}", "pinit id=p1 obj=0 custom=0a src=cb",
                             "plimit id=p2 obj=0 limit=32", "pgen id=p3 obj=0 size=64", "preseed id=p4 obj=0", "pgen id=p5 obj=0 size=33"])
    for e in ev:
        if e['e'].startswith('P'): e['ctl'] = 0

    def p_out(e): e[3]['out'][40] ^= 1; return 4
    def p_stat(e): e[1]['res'] = 0; return 2
    def p_ent(e): e[3]['ent'] = []; return 4                 # a hook removed: the automatic reseed is not logged
    def p_at(e): e[3]['ent'][0]['at'] = 64; return 4           # (0 would mean 'position not observable' and is accepted)
    def p_short(e): e[3]['ent'][0]['bytes'][0] ^= 1; return 4
    corrupt_suite(wd, 'TV_Prng', ev, [("output byte flipped", p_out), ("seeded status flipped", p_stat), ("entropy request not logged", p_ent),
                                      ("request position moved", p_at), ("delivered entropy byte altered", p_short)])
    evj, _ = run_driver(exe, ["reset id=r", "script clear=1 items=", "pinject id=j obj=0 kind=wrap counter=32700 seed=7", "pgen id=g obj=0 size=64"])
    for e in evj:
        if e['e'].startswith('P'): e['ctl'] = 0

    def j_cnt(e): e[1]['counter'] -= 1; return 3      # the injected state as logged differs from what was injected: the generate no longer matches
    def j_v(e): e[1]['V'][31] ^= 1; return 3
    if evj[1].get('e') == 'PInject':
        corrupt_suite(wd, 'TV_Prng', evj, [("injected counter altered", j_cnt), ("injected V altered", j_v)])
    # ---------------- TV_Obs / TV_Perm
    ev, _ = run_driver(exe, ["reset id=r", "clean id=z size=5 o=3", f"perm id=x v=128 rounds=5 s={'00' * 16} k={K}", "hash id=h m=01"])

    def o_clean(e): e[1]['nonzero'] = 1; return 2
    def o_taint(e): e[3]['taint'] = 1; return 4
    corrupt_suite(wd, 'TV_Obs', ev, [("clean leaves a byte", o_clean), ("taint report", o_taint)])
    ev2, _ = run_driver(exe, ["reset id=r", "deadstate id=d kind=hash m=0102030405", "deadstate id=d2 kind=hkdf key=0102 salt=03 info=04 len=40"])

    def o_dead(e): e[1]['maxrun'] = 56; return 2
    def o_vac(e): e[2]['windows'] = 0; return 3
    corrupt_suite(wd, 'TV_Obs', ev2, [("state object found in the dead stack", o_dead), ("vacuous dead-stack search", o_vac)])

    def x_perm(e): e[2]['out'][15] ^= 0x40; return 2
    corrupt_suite(wd, 'TV_Perm', [ev[0], ev[2]], [("permutation output bit flipped", lambda e: (e[1]['out'].__setitem__(15, e[1]['out'][15] ^ 0x40), 2)[1])])

    # ---------------- mode level (TJMode / TV_Mode): the permutation calls of the real code
    import fam_mode
    mexe = fam_mode.build_modedrive(wd)
    k16, n12 = '000102030405060708090a0b0c0d0e0f', '0f0e0d0c0b0a090807060504'
    mev, _ = run_driver(mexe, ["reset m0", f"aenc e1 128 0 {k16} {n12} 0102030405 aabbccddeeff11 -1", f"adec d1 128 0 {k16} {n12} 0102030405 @ -1",
                               f"senc s1 128 4 {k16} {n12} 01 a1b2c3d4e5 -1", f"sdec s2 128 4 {k16} {n12} 01 @ 2", "hash h1 256 3 - - - 00112233445566778899aabbccddeeff0011 -1"])
    first_perm = next(i for i, e in enumerate(mev) if e['e'] == 'Perm')
    def mo_rounds(e): e[first_perm + 1]['r'] = 8; return first_perm + 2
    def mo_in(e): e[first_perm + 4]['in'][4] ^= 0x20; return first_perm + 5
    def mo_drop(e):
        i = next(j for j, x in enumerate(e) if x['e'] == 'Ret'); del e[i - 1]; return i
    def mo_extra(e):
        i = next(j for j, x in enumerate(e) if x['e'] == 'Ret'); e.insert(i, copy.deepcopy(e[i - 1])); return i + 1
    def mo_out(e):
        i = next(j for j, x in enumerate(e) if x['e'] == 'Ret'); e[i]['out'][0] ^= 1; return i + 1
    def mo_key(e): e[first_perm + 2]['key'][3] ^= 0x80; return first_perm + 3
    corrupt_suite(wd, 'TV_Mode', mev, [("rounds of one permutation call altered", mo_rounds), ("domain byte of one call altered", mo_in),
                                        ("one permutation call dropped", mo_drop), ("one permutation call doubled", mo_extra),
                                        ("output byte flipped", mo_out), ("key word of one call altered", mo_key)])

    # ---------------- broken designs
    model_variant(wd, 'MC_DrbgCtl', 'MC_DrbgCtl',
                  [('''       /\\ pc' = IF rem - n = 0 THEN "idle" ELSE "check"''', '''       /\\ pc' = IF rem - n = 0 THEN "idle" ELSE "emit"''')],
                  r'ReseedBound|violated', "MC_DrbgCtl with the reseed test hoisted out of the block loop")
    model_variant(wd, 'MC_DrbgCtl', 'MC_DrbgCtl',
                  [("    /\\ counter' = counter + 1\n    /\\ UNCHANGED <<pc, rem, limit, since, seeded, inited, dels, lastemit>>",
                    "    /\\ counter' = 1\n    /\\ UNCHANGED <<pc, rem, limit, since, seeded, inited, dels, lastemit>>")],
                  r'FeedMonotone|SinceVsCounter|violated', "MC_DrbgCtl where feed resets the counter")
    model_variant(wd, 'MC_CheckTag', 'MC_CheckTag',
                  [("acc' = OrByte(acc, XorByte(Tag1[i + 1], Tag2[i + 1]))", "acc' = XorByte(acc, XorByte(Tag1[i + 1], Tag2[i + 1]))")],
                  r'(Correct|AcceptIff|AlgoEqSpec) is violated', "MC_CheckTag with an XOR accumulator (equal differences cancel)")
    model_variant(wd, 'MC_HkdfCtl', 'MC_HkdfCtl_small',
                  [("counter |-> (a.counter + 1) % (NBlocks + 1)", "counter |-> a.counter + 1")],
                  r'ServesRfcStream is violated|CounterRange is violated', "MC_HkdfCtl whose counter does not wrap to 'exhausted'")
    model_variant(wd, 'MC_HashStream', 'MC_HashStream',
                  [("rest  == SubSeq(data, temp + 1, n)", "rest  == SubSeq(data, 1, n - temp)")],
                  r'StreamingEqOneShot is violated', "MC_HashStream whose update forgets to advance the input after topping up")
    model_variant(wd, 'MC_Conc', 'MC_Conc_demo', [], r'SerialEquivalence is violated|NoGlobals',
                  "MC_Conc with one writable static cell",
                  extra_cfg=open(os.path.join(SPEC, 'MC_Conc_demo.cfg')).read().replace('Globals = {}', 'Globals = {"cache"}').replace('INVARIANT NoGlobals\n', ''))
    model_variant(wd, 'MC_Trng', 'MC_Trng',
                  [('ELSE [s EXCEPT !.pc = IF s.variant = "dev" THEN "close" ELSE "done", !.res = 0, !.buf = "zero"]   \\* PERM',
                    'ELSE [s EXCEPT !.pc = IF s.variant = "dev" THEN "close" ELSE "done", !.res = 0]   \\* PERM')],
                  r'FailureZeroes is violated', "TJTrng that does not zero the buffer on a permanent error", editfile='TJTrng')
    model_variant(wd, 'MC_TrngHw', 'MC_TrngHw',
                  [("!.okf = s.okf /\\ fromdev]", "!.okf = s.okf]")],
                  r'Contract is violated', "TJTrngHw whose Due driver reports success although a word was never ready", editfile='TJTrngHw')
    model_variant(wd, 'MC_TrngHw', 'MC_TrngHw',
                  [('ELSE Tick([s EXCEPT !.pc = "rel", !.okf = FALSE, !.out = Zeros(4 * Words)])',
                    'ELSE Tick([s EXCEPT !.pc = "ret", !.okf = FALSE, !.out = Zeros(4 * Words)])')],
                  r'Contract is violated|NeverBad|eadlock', "TJTrngHw whose Windows driver skips the release after a failed generate", editfile='TJTrngHw')
    model_variant(wd, 'MC_Mode', 'MC_Mode_aead',
                  [('[] d.kind = "dec"  -> LET p == XorBytes(d.w, SqueezeB(out)) IN\n                                      [q1 EXCEPT !.S = AbsorbB(out, p), !.o = q.o \\o p]',
                    '[] d.kind = "dec"  -> LET p == XorBytes(d.w, SqueezeB(out)) IN\n                                      [q1 EXCEPT !.S = AbsorbB(out, d.w), !.o = q.o \\o p]')],
                  r'ModeRefines is violated', "TJMode whose decryption absorbs the ciphertext instead of the recovered plaintext", editfile='TJMode')
    model_variant(wd, 'MC_Mode', 'MC_Mode_siv',
                  [('!.prog = SetupProg(SubSeq(q.c.n, 1, 4) \\o q.t, 176) \\o BlockProg("ks", 208, TRUE, q.c.x)]',
                    '!.prog = Tail(SetupProg(SubSeq(q.c.n, 1, 4) \\o q.t, 176)) \\o BlockProg("ks", 208, TRUE, q.c.x)]')],
                  r'ModeRefines is violated|CallCount is violated', "TJMode whose second SIV pass does not set the key up again", editfile='TJMode')
    print()
    if FAILS:
        print(f"SELFTEST FAILED: {len(FAILS)} expectation(s)")
        for f in FAILS:
            print("  -", f)
        sys.exit(1)
    print("SELFTEST OK")


main_wrap(main)
