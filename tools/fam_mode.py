"""Mode-level conformance: the AEAD / SIV / hash modes as machines with the permutation as their environment.

  spec/TJMode.tla   the machines (one action per permutation call)
  spec/MC_Mode.tla  TLC: the machines run with the real permutation compute the functional specification (refinement)
  spec/TV_Mode.tla  trace specification: the logged permutation calls of the real code are the machine's calls
  harness/modedrive.c   the library linked with --wrap=tinyjambu_permutation_N; answers by policy (real or stand-in)

mode_stage(chk, fam) is a stage of the checks C02 (aead), C09 (siv) and C10 (hash).
"""
import os, json
from tjv import (VERIF, REPO, CONFIGS, build_lib, sh, run_driver, split_executions, validate, tlc_model, Rng, hx, trim,
                 MachineryError)

KLEN = {128: 16, 192: 24, 256: 32}
WRAPS = ('tinyjambu_permutation_128', 'tinyjambu_permutation_192', 'tinyjambu_permutation_256')
POLICIES = {0: 'real', 1: 'identity', 2: 'zero', 3: 'ones', 4: 'real, keystream word repeats', 5: 'alternating 0/ones',
            6: 'real, sentinel keystream words', 7: 'mixing stand-in', 8: 'keystream = last absorbed', 9: 'real/complement'}


def build_modedrive(wd, cfg='prod'):
    od, objs = build_lib(wd, cfg)
    c = CONFIGS[cfg]
    exe = os.path.join(od, 'modedrive')
    ar = os.path.join(od, 'libtinyjambu-mode.a')
    sh(f"ar rcs {ar} {' '.join(objs)}", check=True)
    wrapflags = ' '.join(f'-Wl,--wrap={w}' for w in WRAPS)
    rc, out = sh(f"{c['cc']} -O1 -I{REPO}/src -I{od} {VERIF}/harness/modedrive.c {ar} {wrapflags} -o {exe}")
    if rc != 0:
        raise MachineryError("modedrive does not build (are the permutation functions still separate objects?):\n" + out[-2000:])
    return exe


def H(b):
    return hx(b) if b else '-'


def plan(chk, fam):
    r = Rng(chk.seed ^ {'aead': 0x3A0DE, 'siv': 0x3B0DE, 'hash': 0x3C0DE}[fam])
    groups = []
    pols = sorted(POLICIES)
    if fam == 'hash':
        lens = [0, 1, 15, 16, 17, 31, 32, 33, 47, 48, 64] + ([5, 63, 65, 80, 100, 128, 200] if chk.thorough else [])
        for pm in pols:
            g = []
            for n in lens:
                for cls in ('r', 'h') if (chk.thorough or n in (0, 16, 33)) else ('r',):
                    g.append(f"hash h{pm}-{n}{cls} 256 {pm} - - - {H(r.bytes(n, cls))} -1")
            groups.append(g)
        return groups
    e, d = ('aenc', 'adec') if fam == 'aead' else ('senc', 'sdec')
    shapes = [(a, m) for a in (0, 1, 2, 3, 4, 5, 8, 11) for m in (0, 1, 2, 3, 4, 5, 7, 8, 12, 13, 16, 21)]
    if chk.thorough:
        shapes += [(a, m) for a in (16, 33) for m in (32, 40, 63, 64)]
    for v in (128, 192, 256):
        for pm in pols:
            sel = shapes if chk.thorough else r.sample(shapes, 9)
            g = []
            for (a, m) in sel:
                k, n, ad, x = r.bytes(KLEN[v], r.choice(['r', 'r', 'f'])), r.bytes(12), r.bytes(a), r.bytes(m, r.choice(['r', 'h']))
                tag = f"{v}p{pm}a{a}m{m}"
                pmi = pm + (100 if r.randint(0, 2) == 0 else 0)            # a third of the calls work in place
                common = f"{v} {pmi} {H(k)} {H(n)} {H(ad)}"
                g.append(f"{e} e{tag} {common} {H(x)} -1")
                g.append(f"{d} d{tag} {common} @ -1")                                  # genuine packet
                g.append(f"{d} t{tag} {common} @ {8 * m + r.randint(0, 63)}")             # one tag bit
                if m:
                    g.append(f"{d} b{tag} {common} @ {r.randint(0, 8 * m - 1)}")             # one body bit
                if (a + m) % 5 == 0:
                    g.append(f"{d} s{tag} {common} {H(r.bytes((a + m) % 8))} -1")        # shorter than a tag
                    g.append(f"{d} r{tag} {common} {H(r.bytes(8 + m))} -1")              # random packet
            groups.append(g)
    return groups


def run_groups(exe, groups):
    lines = []
    for gi, g in enumerate(groups):
        lines.append(f"reset x{gi}")
        lines.extend(g)
    events, err = run_driver(exe, lines, timeout=900)
    return split_executions(events)


def mode_stage(chk, fam):
    """Model + trace validation of one family of modes; records models, validations and violations on chk."""
    r = tlc_model(chk.wd, 'MC_Mode', cfg=f"MC_Mode_{fam}" + ('_thorough' if chk.thorough else ''))
    chk.add_model(f'MC_Mode[{fam}]', r)
    try:
        exe = build_modedrive(chk.wd)
    except MachineryError as e:
        # the library itself compiled (build_lib raises first otherwise): the permutation is no longer reached through
        # the external symbols this seam interposes on.  Not a violation: the public-interface stages judge the values.
        chk.log("mode level: the link-time seam is not available in this tree (stage skipped): " + str(e)[:160])
        chk.cov['mode_level'] = dict(family=fam, applicable=False, reason='modedrive does not link: no external permutation calls')
        return None
    groups = plan(chk, fam)
    execs = run_groups(exe, groups)
    # the same plan on other compilers / optimisation levels: executions identical to an earlier build's are judged once
    seen = {json.dumps(ex, sort_keys=True) for ex in execs}
    origin = [(gi, 'prod') for gi in range(len(execs))]          # execution index -> (group index, build)
    for cfg in ('alt3', 'dbg') + (('uchar', 'os', 'alt0') if chk.thorough else ()):
        try:
            exe2 = build_modedrive(chk.wd, cfg)
        except MachineryError:
            continue
        new = 0
        for gi, ex in enumerate(run_groups(exe2, groups)):
            key = json.dumps(ex, sort_keys=True)
            if key not in seen:
                origin.append((gi, cfg))
                seen.add(key)
                for e in ex:
                    e['id'] = f"{cfg}:{e.get('id')}"
                execs.append(ex)
                new += 1
        chk.log(f"mode level, build {cfg}: {new} executions not identical to an earlier build's")
    res = validate(chk.wd, 'TV_Mode', execs, cost=lambda e: 1)
    nperm = sum(1 for ex in execs for e in ex if e.get('e') == 'Perm')
    chk.add_validation('TV_Mode', res, execs, nontrivial=lambda e: e.get('e') == 'Ret')
    chk.cov['mode_level'] = dict(family=fam, public_calls=sum(len(g) for g in groups), permutation_calls_validated=nperm,
                                 answer_policies=[POLICIES[p] for p in sorted(POLICIES)])
    # Soundness guard.  The stage judges the code as a client of tinyjambu_permutation_N.  If, with the REAL permutation
    # answering, the public results are the functional specification's values but the call structure is not the machine's,
    # the tree computes the mode by other means (cached key set-up, inlined or fused permutation calls): the seam does not
    # apply and nothing is reported - the public-interface stages of the check judge bit-exactness.
    pm_of = {ln.split()[1]: int(ln.split()[3]) % 100 for g in groups for ln in g}
    def _pm(ev): return pm_of.get(str(ev.get('id')).split(':')[-1], -1)
    def _fn(mm): return isinstance(mm.get('expected'), dict) and mm['expected'].get('what') == 'functional'
    real_struct = [1 for (_, ev, mm) in res['mismatches'] if _pm(ev) == 0 and not _fn(mm)]
    real_func = [1 for (_, ev, mm) in res['mismatches'] if _pm(ev) == 0 and _fn(mm)]
    if real_struct and not real_func:
        chk.log(f"mode level: {len(real_struct)} structural differences under the real permutation while every public result is "
                f"the functional specification's: this tree does not compute the mode through the interposed calls; stage not applicable")
        chk.cov['mode_level'].update(applicable=False, reason='call structure differs under the real permutation, public results correct')
        return res
    chk.cov['mode_level']['applicable'] = True
    seen = set()
    for (xi, ev, mm) in res['mismatches']:
        if xi in seen:
            continue
        seen.add(xi)
        gi, cfg = origin[xi] if xi < len(origin) else (None, '?')
        g = groups[gi] if gi is not None and gi < len(groups) else None
        pl = None
        if g is not None:
            # the calls of this execution up to and including the rejected one ("@" refers to the preceding encryption)
            idx = next((i for i, ln in enumerate(g) if ln.split()[1] == str(ev.get('id')).split(':')[-1]), len(g) - 1)
            pl = [f"reset x{xi}"] + g[:idx + 1]
            if len(seen) <= 2 and cfg == 'prod':
                ex2 = split_executions(run_driver(exe, pl, timeout=300)[0])
                r2 = validate(chk.wd, 'TV_Mode', ex2, shards=1)
                if r2['errors']:
                    raise MachineryError("re-validation failed: " + r2['errors'][0][:1000])
                if not r2['mismatches']:
                    raise MachineryError(f"rejection of event {ev.get('id')} did not repeat on re-execution (flaky machinery)")
        chk.violation(f"mode level: event {ev.get('id')} ({ev.get('e')}) is not a behaviour of the mode machine: "
                      f"{json.dumps(trim(mm.get('expected'), 40))[:300]}",
                      dict(trace_spec='TV_Mode', driver='modedrive', plan=pl, event=trim(ev, 80), expected=trim(mm.get('expected'), 80)))
    return res


def replay_mode(chk, rep):
    exe = build_modedrive(chk.wd)
    ex = split_executions(run_driver(exe, rep['plan'], timeout=300)[0])
    res = validate(chk.wd, 'TV_Mode', ex, shards=1)
    chk.add_validation('TV_Mode', res, ex)
    for (xi, e, mm) in res['mismatches'][:3]:
        chk.violation(f"replayed: event {e.get('id')} ({e.get('e')}) rejected: {str(mm.get('expected'))[:200]}", rep)
    chk.sample(trim(ex[0][:3], 8))
    chk.finish(rule="replay of one recorded execution (mode level)", assumptions=[])
