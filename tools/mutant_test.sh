#!/bin/bash
# usage: mutant_test.sh <patch> <check id>...   applies the patch to /repo, runs the quick checks, restores /repo
patch=$1; shift
cd /repo || exit 9
if ! git diff --quiet; then echo "/repo is dirty"; exit 9; fi
git apply "$patch" || { echo "patch does not apply"; exit 9; }
trap 'git -C /repo checkout -- . ' EXIT
for c in "$@"; do
  start=$(date +%s)
  out=$(cd /verif && tools/check $c quick 2>&1); rc=$?
  echo "== $c rc=$rc ($(( $(date +%s)-start ))s)"; echo "$out" | grep -E "VIOLATION|violation:|MACHINERY|KNOWN" | head -4
done
