#!/usr/bin/env python3
"""Writes /verif/MANIFEST.json from the table below (single place to edit)."""
import json, os
V = os.path.dirname(os.path.dirname(os.path.abspath(__file__)))
TLC = "TLC 1.8.0 evaluating the TLA+ specification in /verif/spec; gcc 12 / clang 14 building /repo's working tree; the driver harness/tjdrive.c"
C = {}
def chk(pid, cat, text, note, tech, ref):
    C[pid] = dict(property_id=pid, quick_cmd=f"tools/check {pid} quick", thorough_cmd=f"tools/check {pid} thorough",
                  evidence_file=f"/verif/evidence/{pid}.json", replay_cmd_template=f"tools/check {pid} --replay {{path}}",
                  engine="tla-conformance", level_claimed=dict(category=cat, text=text, design_ref=ref), level_note=note, technique=tech)

TV = "trace validation: every public call of the real library (built from the working tree) is recorded and TLC must accept the trace as a behaviour of the TLA+ specification"
chk('C01', 'model_checking', "Every Enc/Dec event of a TLC-expanded shape space (lengths, residues, in-place, alignments, key/data classes, 3 key sizes) is validated by TLC against the bit-level TinyJAMBU specification, plus a round-trip history rule; a finite sample of an infinite input space, so conformance on the explored shapes, not a proof.",
    TLC + "; KAT anchoring of the oracle", "TLA+ spec (TJPerm/TJAead) + TLC trace validation of recorded Enc/Dec calls; plan expanded by TLC from Plan_Cipher", "DESIGN.md 7 C01")
chk('C02', 'model_checking', "Every Enc event (many keys/nonces incl. every single-bit key/nonce position, high-bit data, long AD/messages) from every build configuration is validated by TLC against the bit-serial TinyJAMBU v2 specification, which is itself validated against the NIST KAT vectors.",
    TLC + "; the stored NIST KAT vectors in spec/anchors", "TLA+ bit-level spec of TinyJAMBU v2 + TLC trace validation across gcc/clang -O0..-O3, shared/static", "DESIGN.md 7 C02")
chk('C03', 'model_checking', "MC_CheckTag: TLC exhaustively explores the byte-serial tag comparison over difference patterns and shows it equals accept-iff-equal; all patterns are replayed on the real check function; tampered packets (every body/AD/tag bit of short packets, nonce, key, truncation, extension, boundary shift, clen<8) through the real decrypt are judged by the interpreted specification.",
    TLC + "; forgery search is out of scope (2^-64)", "TLA+ model MC_CheckTag (exhaustive) + replay of its patterns + TLC trace validation of tampered decrypts", "DESIGN.md 7 C03")
chk('C04', 'model_checking', "For every length of the plan (to 64 KiB quick, 1 MiB thorough) x 6 ciphers x in-place/separate x pre-fills x tamper classes, the whole plaintext region is projected by the driver and TLC applies the CheckTag rule: rejected => all zero, accepted => exactly the plaintext; short packets fully interpreted.",
    TLC + "; projections (non-zero count, equality) computed by the driver over the full region", "TLA+ CheckTag rule + TLC trace validation of projected long-packet decrypt events", "DESIGN.md 7 C04")
chk('C08', 'model_checking', "As C01+C03 for the three SIV ciphers against the TJSiv specification (decrypt-then-authenticate), including every tag bit (which changes the keystream) for selected packets.",
    TLC + "; SIV reference vectors from tools/sivref in spec/anchors", "TLA+ spec TJSiv + TLC trace validation of SIV Enc/Dec/tamper events", "DESIGN.md 7 C08")
chk('C09', 'model_checking', "Every SIV Enc event must equal the documented two-pass construction as specified in TLA+; history rules over families under a reused (key, nonce) check determinism, distinct synthetic IVs and non-XOR-related bodies, with an AEAD control group proving the rule is not vacuous.",
    TLC + "; relational rule on common prefixes >= 8 bytes", "TLA+ spec TJSiv + relational history rules in the trace specification, validated by TLC", "DESIGN.md 7 C09")
chk('C10', 'model_checking', "One-shot hash events for every length 0..80 and block/page edges, byte classes, alignments and all build configurations validated by TLC against the MDPH construction in TLA+, anchored on the reference program's vectors.",
    TLC + "; reference vectors of tools/hashref in spec/anchors", "TLA+ spec TJHash + TLC trace validation", "DESIGN.md 7 C10")
chk('C11', 'model_checking', "MC_HashStream: TLC exhaustive over all interleavings of init/reinit/update/finalize/free/garbage on 2 objects (data-abstract) with streaming=one-shot, buffer bound, isolation and reset invariants; bound to the code by all compositions of n<=10 (14) bytes, every (posn,len) transition, and TLC-simulated multi-object histories, validated by TLC.",
    TLC + "; use of a finalized/freed object without re-init is left open and not exercised", "TLA+ model MC_HashStream (exhaustive) + TLC-generated histories replayed into the code + TLC trace validation (interpreted and opaque)", "DESIGN.md 7 C11")
chk('C12', 'model_checking', "Key-length x message-length grid (incl. 63/64/65, >64 hashed keys, empty/NULL key) as one-shot and streamed/reinit HMAC, every event validated by TLC against RFC 2104 over the interpreted hash.",
    TLC + "; HMAC reference vectors in spec/anchors", "TLA+ spec TJHmac + TLC trace validation", "DESIGN.md 7 C12")
chk('C13', 'model_checking', "MC_HkdfCtl: TLC exhaustive over request sequences (real scale near 8160, scaled-down all lengths): each call serves the next bytes of T(1)..T(255), zeros past the limit, -1 iff past it; bound to the code by one-shot grid, limit cases, (posn,len) edges, limit-crossing families and simulated histories validated by TLC against RFC 5869 over the interpreted HMAC.",
    TLC + "; RFC 5869 text as oracle (no independent reference in the repository)", "TLA+ model MC_HkdfCtl + spec TJKdf + TLC trace validation (block-wise for long outputs)", "DESIGN.md 7 C13")
chk('C14', 'model_checking', "Parameter grid (password/salt lengths, counts 0..5(17), 100, lengths incl. non-multiples of 32, 257 blocks) validated by TLC against RFC 8018 over the interpreted HMAC.",
    TLC + "; RFC 8018 text as oracle", "TLA+ spec TJKdf!Pbkdf2 + TLC trace validation (block-wise for long outputs)", "DESIGN.md 7 C14")
chk('C15', 'model_checking', "Histories generated by TLC from MC_DrbgCtl (with scripted full/short/empty entropy deliveries) are replayed into the real PRNG and every output byte is validated by TLC against the Hash_DRBG machine TJDrbg over the interpreted hash.",
    TLC + "; SP 800-90A 10.1.1 + documented deviations as oracle", "TLA+ model MC_DrbgCtl generating histories + spec TJDrbg + TLC trace validation", "DESIGN.md 7 C15")
chk('C16', 'model_checking', "MC_DrbgCtl: TLC exhaustive over all bounded histories with per-block steps: ReseedBound, SinceVsCounter, FeedMonotone, LimitRule, a 1 MiB instance and liveness; bound to the code by control-level trace validation (number and positions of entropy requests per call observed at the callback) for limits 0..2^48 and 1 MiB outputs, plus data-level validation.",
    TLC + "; entropy requests observed at the public callback interface", "TLA+ model MC_DrbgCtl (exhaustive, action properties) + control-level TLC trace validation", "DESIGN.md 7 C16")
chk('C17', 'fault_enumeration', "Every pattern of full/short/none deliveries over up to 4 (6) successive entropy requests (init, automatic and explicit reseeds), NULL/0 personalisation, NULL callback vs plain init vs explicit callback over an interposed OS source; TLC checks truthful status, the exact post-failure state via outputs, no repeated block; a crash is an unmatched Fault event.",
    TLC + "; getrandom() interposed at link time for the system source", "fault patterns enumerated, replayed with a scripted entropy source, TLC trace validation against TJDrbg", "DESIGN.md 7 C17")
chk('C18', 'fault_enumeration', "MC_Trng: TLC exhaustive over OS outcome sequences (<=8 transients) for 4 build variants, safety and liveness; every sequence with <=3 (5) transients plus long runs, short reads and open failures is injected into the real source file built in the getrandom/getentropy/raw-syscall//dev/urandom variants; each OS-call trace is validated by TLC against the TJTrng machine.",
    TLC + "; OS entry points interposed at link time", "TLA+ model MC_Trng + fault sequences from the model injected by link-time interposition + TLC trace validation", "DESIGN.md 7 C18")

chk('C05', 'model_checking', "Every assembly back end (24 files, 27 target/ABI programs) is translated instruction by instruction into a TLA+ constant and executed by TLC in an ISA model (Mach32: ARM/RISC-V/Xtensa, MachAvr) for rounds 1..24 on structured and random inputs: final state = specification, write set, callee-saved registers, stack, return address, key, and a taint ghost for data-independent control flow; each program is also run once SYMBOLICALLY over GF(2) polynomials (Sym32/SymAvr), showing for all 2^128 states and all keys that every round of the loop body equals the specification's Step^128; the C back end is trace-validated against the bit-serial NLFSR; generated files are compared with fresh generator output.",
    TLC + "; the ISA models cover exactly the instruction subsets the shipped files use; the portable C back end and the loop control are checked on concrete inputs only", "TLA+ ISA models executing the translated assembly in TLC, concretely and symbolically (GF(2) polynomials) + TLC trace validation of the C back end + byte comparison with generator output", "DESIGN.md 7 C05")
chk('C06', 'exploration', "Sweep of every public function over exhaustive windows of length tuples, alignments, placements and NULL/0 with guard pages, canaries, read-only inputs, double runs with different pre-fills, ASan+UBSan and memcheck; TLC judges every recorded event against the footprint contract TJMem (TV_Obs).",
    TLC + "; guard pages, ASan/UBSan (clang 14) and valgrind 3.19 produce the observations", "exhaustive length-window sweep under guard pages/sanitizers/memcheck, events judged by TLC against the TLA+ buffer contract", "DESIGN.md 7 C06")
chk('C07', 'exploration', "Every API over public shape classes is executed under valgrind memcheck on the -O3 objects of gcc and clang with all secrets marked undefined for the duration of the call; the count of secret-dependent branches/addresses inside each call is logged and TLC (TV_Obs) requires zero.",
    TLC + "; valgrind memcheck's definedness tracking is the observer; timing of single instructions is out of scope", "memcheck taint tracking of secrets on the optimised objects, events judged by TLC against the TLA+ leakage contract", "DESIGN.md 7 C07")
chk('C19', 'model_checking', "MC_Conc: TLC explores every interleaving of 3 threads x 3 calls where each call may touch every writable static cell and the heap; the sets Globals and Imports are computed from the object files built from the working tree, so SerialEquivalence / NoGlobals / NoHeap are decided for this code; a 16-thread TSan workload and history-independence traces are validated by TLC (TV_Conc).",
    TLC + "; nm/objdump of the built objects; ThreadSanitizer (clang 14) as dynamic observer", "TLA+ interleaving model with code-derived constants + TSan differential workload + TLC trace validation", "DESIGN.md 7 C19")
chk('C20', 'exploration', "Object histories ending in free (hash/HMAC/HKDF/PRNG; fresh, mid-block, finalized, exhausted, unseeded, never initialised) with several pre-fills, and clean over every (offset, size), on gcc/clang x optimisation levels x explicit_bzero/volatile builds; TLC judges every event against TJMem!EraseOK; MC_HashStream carries FreeErases.",
    TLC + "; memset_s / SecureZeroMemory paths do not exist on this platform", "object life-cycle histories replayed on a build matrix, events judged by TLC against the TLA+ erasure contract", "DESIGN.md 7 C20")

NA = {
 'C05': "not yet implemented in this revision (ISA models of the assembly back ends are the last phase of DESIGN.md section 12)",
 'C06': "not yet implemented in this revision (memory observers: guard pages are already active in every check, the dedicated sweep is pending)",
 'C07': "not yet implemented in this revision (valgrind taint / address-trace observers pending)",
 'C19': "not yet implemented in this revision (symbol-table-derived concurrency model pending)",
 'C20': "not yet implemented in this revision (free events are already judged inside C11-C17 traces; the clean grid and build matrix are pending)",
}
import sys
done = ['C05', 'C06', 'C07', 'C19', 'C20'] + [a for a in sys.argv[1:]]
for p in done:
    NA.pop(p, None)
m = dict(version=1, setup_cmd="tools/setup.sh",
         hooks=dict(guard="TINYJAMBU_VERIF", enable="no source hooks exist: observation is by the public API, link-time --wrap interposition, guard pages and valgrind (DESIGN.md 5.3)",
                    baseline_off_cmd="cmake -S /repo -B /repo/_build -G Ninja >/dev/null && cmake --build /repo/_build >/dev/null && ctest --test-dir /repo/_build -j8",
                    source_commits=[], add_only=True),
         engines=[dict(name="tla-conformance", path="/verif/tools/check", serves_properties=sorted(C),
                       kind_free_text="explicit TLA+ specification (spec/*.tla) checked with TLC: exhaustive models (MC_*), plan generation (Plan_*, -simulate) and trace validation (TV_*) of calls recorded from the real library by harness/tjdrive.c")],
         checks=[C[k] for k in sorted(C) if k not in NA],
         notes="All checks rebuild the library from /repo's working tree into a private temporary directory. fix: commit 4d7bfef in /repo repairs the C17 NULL-callback defect (known-findings.json).",
         not_applicable=[dict(property_id=k, reason=v) for k, v in sorted(NA.items())])
json.dump(m, open(os.path.join(V, 'MANIFEST.json'), 'w'), indent=1)
print("claimed:", [c['property_id'] for c in m['checks']], "n/a:", sorted(NA))
