#!/usr/bin/env python3
"""extras.py - specification coverage beyond the twenty listed properties.

  extras.py trnghw [quick|thorough]
      The entropy back ends for platforms without a Unix entropy call (src/random/tinyjambu-trng-{due,stm32,esp,
      windows}.c and the selection header): MC_TrngHw (TLC, exhaustive at reduced scale, with liveness), the back ends'
      own sources compiled against stand-in platform headers and driven with TLC-expanded device scripts, every device
      access trace-validated against TV_TrngHw, and the preprocessor's choice of back end compared with Select(S).

This is not one of the registered checks (no listed property speaks about these files); it follows the same discipline:
exit 0 if everything explored is a behaviour of the specification, apart from the deviations listed in
/verif/extras/known-observations.json (each printed as "OBSERVATION: ..."); exit 1 with "DEVIATION: ..." lines otherwise.
"""
import os, sys, json, subprocess, time
sys.path.insert(0, os.path.dirname(os.path.abspath(__file__)))
import tjv
from tjv import VERIF, REPO, workdir, sh, tlc_plan, tlc_model, validate, split_executions, MachineryError, main_wrap

FAMILIES = ['STM32F405xx', 'STM32F207xx', 'STM32F746xx', 'STM32G071xx', 'STM32G474xx', 'STM32H743xx', 'STM32L053xx',
            'STM32L476xx', 'STM32L552xx', 'STM32WB55xx', 'STM32WL55xx', 'STM32MP157Axx']


def known():
    p = os.path.join(VERIF, 'extras', 'known-observations.json')
    return json.load(open(p))['observations'] if os.path.exists(p) else []


def run_script(exe, lines, timeout=300):
    p = subprocess.run([exe], input='\n'.join(lines) + '\n', capture_output=True, text=True, timeout=timeout)
    evs = []
    for ln in p.stdout.splitlines():
        try:
            evs.append(json.loads(ln))
        except ValueError:
            evs.append(dict(e='Garbled', id='?', text=ln[:200]))
    if p.returncode != 0:
        evs.append(dict(e='Crash', id='?', rc=p.returncode, err=p.stderr[-400:]))
    return evs


def trnghw(tier):
    t0 = time.time()
    wd = workdir('tjv-xtrng-')
    thorough = tier == 'thorough'
    rnd = os.path.join(REPO, 'src', 'random')
    H = os.path.join(VERIF, 'harness')
    report = dict(tier=tier, builds={}, models=[], trace_specs=[], deviations=[], observations=[])
    deviations = []     # (key, text)

    def log(*a):
        print(f"[X-TRNGHW {time.time() - t0:6.1f}s]", *a, flush=True)

    # (A) design level
    r = tlc_model(wd, 'MC_TrngHw', cfg='MC_TrngHw')
    if not r['ok']:
        raise MachineryError("MC_TrngHw failed:\n" + r['out'][-3000:])
    report['models'].append(dict(model='MC_TrngHw(Words=3,Budget=3)', distinct=r['distinct'], generated=r['generated'], depth=r['depth'],
                                 liveness='Returns', exhaustive=True))
    log(f"model MC_TrngHw: {r['distinct']} distinct states, depth {r['depth']}, contract + liveness hold")
    plan = tlc_plan(wd, 'Plan_TrngHw')
    # (B) the back ends as shipped: does each compile in its own configuration?
    base = f"-O2 -Wall -I{H} -I{rnd}"
    variants = {
        'due':     f"-DHW_DUE -DTINYJAMBU_TRNG_SELECT_H -DTINYJAMBU_TRNG_DUE=1 -I{H}/shim-hw/due",
        'stm32':   f"-DHW_STM32 -DTINYJAMBU_TRNG_SELECT_H -DTINYJAMBU_TRNG_STM32=hrng -include {H}/shim-hw/stm32/hal.h",
        'esp32':   "-DHW_ESP -DTINYJAMBU_TRNG_SELECT_H -DTINYJAMBU_TRNG_ESP=1",
        'esp8266': "-DHW_ESP -DESP8266 -DTINYJAMBU_TRNG_SELECT_H -DTINYJAMBU_TRNG_ESP=1",
        'windows': f"-DHW_WIN -DTINYJAMBU_TRNG_SELECT_H -DTINYJAMBU_TRNG_WINDOWS=1 -I{H}/shim-hw/win",
    }
    exes = {}
    for name, flags in variants.items():
        exe = os.path.join(wd, 'hw-' + name)
        rc, out = sh(f"gcc {base} {flags} -o {exe} {H}/hwtrng.c")
        if rc != 0 and name == 'windows':
            first = next((ln for ln in out.splitlines() if 'error' in ln), out[:200])
            deviations.append(('windows-does-not-compile', f"tinyjambu-trng-windows.c does not compile: {first.strip()[-160:]}"))
            # still examine the rest of its logic with the missing identifier supplied from outside
            rc, out = sh(f"gcc {base} {flags} -Doutlen=TINYJAMBU_SYSTEM_SEED_SIZE -o {exe} {H}/hwtrng.c")
            report['builds'][name] = 'compiled only with -Doutlen=TINYJAMBU_SYSTEM_SEED_SIZE'
        if rc != 0:
            deviations.append((f'{name}-does-not-compile', f"back end {name} does not compile against the stand-in headers: {out[-300:]}"))
            continue
        report['builds'].setdefault(name, 'compiled')
        exes[name] = exe
    # the STM32 back end through its own selection header (not bypassed)
    rc, out = sh(f"gcc {base} -U__linux__ -U__linux -Ulinux -U__unix__ -U__unix -Uunix -U__gnu_linux__ -DHW_STM32 -DUSE_HAL_DRIVER -DSTM32F405xx -DTJ_SHIM_RNG_ENABLED -I{H}/shim-hw/stm32 "
                 f"-fsyntax-only {H}/hwtrng.c")
    if rc != 0:
        first = next((ln for ln in out.splitlines() if 'error' in ln), out[:200])
        deviations.append(('stm32-header-does-not-compile', "tinyjambu-trng-stm32.c does not compile through tinyjambu-trng-stm32.h "
                           f"(USE_HAL_DRIVER, STM32F405xx, RNG enabled): {first.strip()[-160:]}"))
    # (C) device scripts
    execs = []
    step = 1 if thorough else 4

    def calls(prefix, items, fmt):
        out, cur = [], []
        for i, it in enumerate(items):
            cur.append(f"call id={prefix}{i} {fmt(it)} seed={1 + 7 * i}")
            if len(cur) == 12:
                out.append(cur); cur = []
        if cur:
            out.append(cur)
        return out
    if 'due' in exes:
        for g in calls('due', plan['due'][::step], lambda d: "d=" + ','.join(map(str, d))):
            execs.append(run_script(exes['due'], g))
    if 'stm32' in exes:
        for g in calls('st', plan['stm32'], lambda d: "st=" + ','.join(map(str, d))):
            execs.append(run_script(exes['stm32'], g))
    for be in ('esp32', 'esp8266'):
        if be in exes:
            execs.append(run_script(exes[be], [f"call id={be}-{i} seed={i + 1}" for i in range(24)]))
    if 'windows' in exes:
        execs.append(run_script(exes['windows'], [f"call id=w{i} acq={w['acq']} gen={w['gen']} seed={i + 1}" for i, w in enumerate(plan['windows'] * 3)]))
    # (D) selection: what does the preprocessor define for each set of platform macros?
    sel = []
    for i, S in enumerate(plan['select']):
        fam = FAMILIES[i % len(FAMILIES)]
        ds = []
        for m in S:
            ds.append('-DTJ_SHIM_RNG_ENABLED' if m == 'RNG' else (f'-D{fam}' if m == 'FAMILY' else f'-D{m}'))
        p = subprocess.run(f"gcc -E -dM -undef -DTJ_SELECT_ONLY {' '.join(ds)} -I{H}/shim-hw/stm32 {rnd}/tinyjambu-trng-select.h", shell=True,
                           capture_output=True, text=True)
        defs = {}
        for ln in p.stdout.splitlines():
            parts = ln.split(None, 2)
            if len(parts) >= 2 and parts[1].startswith('TINYJAMBU_TRNG_') and parts[1] not in ('TINYJAMBU_TRNG_SELECT_H', 'TINYJAMBU_TRNG_STM32_H'):
                defs[parts[1][len('TINYJAMBU_TRNG_'):]] = parts[2] if len(parts) > 2 else ''
        sel.append(dict(e='Select', id=f"sel{i}", macros=sorted(S), family=fam if 'FAMILY' in S else '', status=p.returncode,
                        defined=sorted(defs), handle=defs.get('STM32', '')))
    for i in range(0, len(sel), 100):
        execs.append([dict(e='Reset', id='reset', backend='due')] + sel[i:i + 100])
    res = validate(wd, 'TV_TrngHw', execs)
    if res['errors']:
        raise MachineryError("trace validation TV_TrngHw failed:\n" + '\n'.join(res['errors'])[:3000])
    nev = sum(len(x) for x in execs)
    report['trace_specs'].append(dict(spec='TV_TrngHw', executions=len(execs), events=nev, mismatches=len(res['mismatches'])))
    log(f"validated {nev} events / {len(execs)} executions against TV_TrngHw: {len(res['mismatches'])} rejected")
    for (xi, ev, mm) in res['mismatches']:
        if ev.get('e') == 'Select':
            d = ev.get('defined', [])
            if 'STM32' in d and 'NONE' in d:
                key = 'select-stm32-two-sources'
            elif 'STM32' in d and ev.get('handle') == '1':
                key = 'select-stm32-handle-overwritten'
            else:
                key = 'select-' + '+'.join(ev['macros'])
            deviations.append((key, f"selection for {ev['macros']} (family {ev.get('family')}): preprocessor defines {ev['defined']} "
                               f"handle '{ev.get('handle')}', specification expects {mm.get('expected')}"))
        else:
            deviations.append((f"trace-{ev.get('id')}", f"event {ev.get('id')} ({ev.get('e')} {ev.get('op', '')}) is not a behaviour of TV_TrngHw: {json.dumps(mm.get('expected'))[:300]}"))
    for ex in execs:
        for ev in ex:
            if ev.get('e') in ('Hang', 'Crash', 'Garbled', 'Fault'):
                deviations.append((f"run-{ev.get('e')}", f"harness event {ev}"))
    # verdict
    kn = {k['key']: k for k in known()}
    seen, new = {}, []
    for key, text in deviations:
        if key in kn:
            seen.setdefault(key, text)
        else:
            new.append((key, text))
    for key, text in seen.items():
        print(f"OBSERVATION: {key}: {text}", flush=True)
        report['observations'].append(dict(key=key, text=text))
    for key, text in new[:10]:
        print(f"DEVIATION: {key}: {text}", flush=True)
        report['deviations'].append(dict(key=key, text=text))
    report['events_by_backend'] = {}
    for ex in execs:
        be = ex[0].get('backend', '?') if ex and ex[0].get('e') == 'Reset' else '?'
        kind = 'select' if any(e.get('e') == 'Select' for e in ex) else be
        report['events_by_backend'][kind] = report['events_by_backend'].get(kind, 0) + len(ex)
    report['wall_s'] = round(time.time() - t0, 1)
    os.makedirs(os.path.join(VERIF, 'extras'), exist_ok=True)
    json.dump(report, open(os.path.join(VERIF, 'extras', 'trnghw.json'), 'w'), indent=1)
    log("held on everything explored" if not new else f"{len(new)} deviation(s) not listed in extras/known-observations.json")
    return 1 if new else 0


def refimpl(tier):
    """The repository's reference implementations (tools/sivref, tools/hashref - the generators of test/kat/*.txt) driven on
    inputs far beyond the committed vectors and judged by the same TLA+ oracles as the library (TV_Cipher / TV_Hash)."""
    t0 = time.time()
    wd = workdir('tjv-xref-')
    thorough = tier == 'thorough'
    T = os.path.join(REPO, 'tools')
    H = os.path.join(VERIF, 'harness')
    r = tjv.Rng(int(os.environ.get('VERIF_SEED', '20261003') or 0) ^ 0xEF)

    def log(*a):
        print(f"[X-REFIMPL {time.time() - t0:6.1f}s]", *a, flush=True)
    exes = {}
    for n in (128, 192, 256):
        exe = os.path.join(wd, f'refsiv{n}')
        rc, out = sh(f"gcc -O2 -w -DREF_SIV -DCRYPTO_KEYBYTES={n // 8} -I{T}/sivref -o {exe} {H}/refdrive.c {T}/sivref/encrypt-{n}.c")
        if rc:
            raise MachineryError("cannot build the SIV reference: " + out[-500:])
        exes[n] = exe
    exe = os.path.join(wd, 'refhash')
    rc, out = sh(f"gcc -O2 -w -DREF_HASH -I{T}/hashref -o {exe} {H}/refdrive.c {T}/hashref/hash.c {T}/hashref/hmac.c {T}/hashref/state.c")
    if rc:
        raise MachineryError("cannot build the hash reference: " + out[-500:])
    exes['hash'] = exe
    hx = lambda b: b.hex() if b else '-'

    def run(exe, lines):
        p = subprocess.run([exe], input='\n'.join(lines) + '\n', capture_output=True, text=True, timeout=600)
        out = {}
        for ln in p.stdout.splitlines():
            i, res, h = ln.split()
            out[i] = (int(res), bytes.fromhex(h) if h != '-' else b'')
        return out
    deviations = []
    # SIV: dense (adlen, mlen) window, edges, long; decrypt of the genuine and of tampered packets
    cexecs = []
    for n in (128, 192, 256):
        shapes = [(a, m) for a in (0, 1, 2, 3, 4, 5, 8, 17) for m in list(range(0, 21)) + [31, 32, 33, 64, 65]]
        shapes += [(0, 255), (255, 3), (1025, 1), (7, 1027)] + ([(3, 4099), (4099, 5)] if thorough else [])
        data = [(r.bytes(n // 8), r.bytes(12), r.bytes(a, 'rhfc'[(a + m) % 4]), r.bytes(m, 'rhfc'[(a + 2 * m) % 4])) for a, m in shapes]
        enc = run(exes[n], [f"enc e{i} {hx(k)} {hx(nn)} {hx(ad)} {hx(m)}" for i, (k, nn, ad, m) in enumerate(data)])
        dl, meta = [], {}
        for i, (k, nn, ad, m) in enumerate(data):
            res, c = enc.get(f"e{i}", (-99, b''))
            if res != 0:
                deviations.append((f"ref-siv{n}-enc", f"reference SIV-{n} encrypt returned {res}"))
                continue
            variants = [('ok', c)]
            if len(c) > 8:
                variants.append(('body', bytes([c[0] ^ 1]) + c[1:]))
            variants.append(('tag', c[:-1] + bytes([c[-1] ^ 0x80])))
            for nm, cc in variants:
                dl.append(f"dec d{i}{nm} {hx(k)} {hx(nn)} {hx(ad)} {hx(cc)}")
                meta[f"d{i}{nm}"] = (k, nn, ad, cc)
        dec = run(exes[n], dl)
        ex = [dict(e='Reset', id=f'ref{n}')]
        for i, (k, nn, ad, m) in enumerate(data):
            res, c = enc.get(f"e{i}", (-99, b''))
            if res == 0:
                ex.append(dict(e='Enc', id=f"ref{n}:e{i}", mode='siv', v=n, k=list(k), n=list(nn), ad=list(ad), m=list(m), out=list(c),
                               clen=len(c), keep=0, alias=0, inmod=0, canary=1, taint=0))
        for i_, (k, nn, ad, cc) in meta.items():
            res, mm = dec.get(i_, (-99, b''))
            # the reference is not required to wipe a rejected plaintext: only verdict and accepted plaintext are judged
            mout = list(mm) if res == 0 else [0] * (len(cc) - 8)
            ex.append(dict(e='Dec', id=f"ref{n}:{i_}", mode='siv', v=n, k=list(k), n=list(nn), ad=list(ad), c=list(cc), res=res,
                           mlen=len(mm) if res == 0 else -1, mout=mout, untouched=0, alias=0, inmod=0, canary=1, taint=0, adj=0))
            if len(ex) > 60:
                cexecs.append(ex); ex = [dict(e='Reset', id=f'ref{n}')]
        cexecs.append(ex)
    res = validate(wd, 'TV_Cipher', cexecs, cost=lambda e: 1 + len(e.get('m', e.get('c', []))) + len(e.get('ad', [])))
    if res['errors']:
        raise MachineryError("TV_Cipher on the reference failed: " + res['errors'][0][:2000])
    for (xi, ev, mm) in res['mismatches']:
        deviations.append((f"ref-{ev.get('id')}", f"reference event {ev.get('id')} is not a behaviour of TV_Cipher: expected {json.dumps(tjv.trim(mm.get('expected'), 16))[:300]}"))
    log(f"SIV reference: {sum(len(x) for x in cexecs)} events against TV_Cipher, {len(res['mismatches'])} rejected")
    ncipher = sum(len(x) for x in cexecs)
    # hash and HMAC (the reference HMAC takes 32-byte keys only)
    lens = list(range(0, 81)) + [95, 96, 97, 127, 128, 129, 255, 256, 257, 1023, 1025] + ([4097, 10000] if thorough else [])
    msgs = [r.bytes(n, 'rhfc'[n % 4]) for n in lens]
    keys = [r.bytes(32, 'rf'[i % 2]) for i in range(len(lens))]
    out = run(exes['hash'], [f"hash h{i} {hx(m)}" for i, m in enumerate(msgs)] + [f"hmac a{i} {hx(k)} {hx(m)}" for i, (k, m) in enumerate(zip(keys, msgs))])
    hexecs, ex = [], [dict(e='Reset', id='refh')]
    for i, m in enumerate(msgs):
        rs, dg = out.get(f"h{i}", (-99, b''))
        ex.append(dict(e='Hash', id=f"ref:h{i}", m=list(m), out=list(dg), learn=0, inmod=0, canary=1 if rs == 0 else 0, taint=0))
        rs, tg = out.get(f"a{i}", (-99, b''))
        ex.append(dict(e='Hmac', id=f"ref:a{i}", k=list(keys[i]), m=list(m), out=list(tg), inmod=0, canary=1 if rs == 0 else 0, kcanary=1, taint=0))
        if len(ex) > 12:
            hexecs.append(ex); ex = [dict(e='Reset', id='refh')]
    hexecs.append(ex)
    res2 = validate(wd, 'TV_Hash', hexecs, cost=lambda e: 1 + len(e.get('m', [])))
    if res2['errors']:
        raise MachineryError("TV_Hash on the reference failed: " + res2['errors'][0][:2000])
    for (xi, ev, mm) in res2['mismatches']:
        deviations.append((f"ref-{ev.get('id')}", f"reference event {ev.get('id')} is not a behaviour of TV_Hash: expected {json.dumps(tjv.trim(mm.get('expected'), 16))[:300]}"))
    log(f"hash/HMAC reference: {sum(len(x) for x in hexecs)} events against TV_Hash, {len(res2['mismatches'])} rejected")
    kn = {k['key'] for k in known()}
    new = [(k, t) for k, t in deviations if k not in kn]
    for k, t in new[:10]:
        print(f"DEVIATION: {k}: {t}", flush=True)
    os.makedirs(os.path.join(VERIF, 'extras'), exist_ok=True)
    json.dump(dict(tier=tier, cipher_events=ncipher, hash_events=sum(len(x) for x in hexecs), deviations=[dict(key=k, text=t) for k, t in new],
                   trace_specs=[dict(spec='TV_Cipher', events=ncipher, mismatches=len(res['mismatches'])),
                                dict(spec='TV_Hash', events=sum(len(x) for x in hexecs), mismatches=len(res2['mismatches']))],
                   wall_s=round(time.time() - t0, 1)), open(os.path.join(VERIF, 'extras', 'refimpl.json'), 'w'), indent=1)
    log("held on everything explored" if not new else f"{len(new)} deviation(s)")
    return 1 if new else 0


def main():
    what = sys.argv[1] if len(sys.argv) > 1 else 'trnghw'
    tier = sys.argv[2] if len(sys.argv) > 2 else 'quick'
    if what == 'refimpl':
        return refimpl(tier)
    if what == 'all':
        return max(trnghw(tier), refimpl(tier))
    if what == 'trnghw':
        return trnghw(tier)
    print("unknown extra", what)
    return 2


if __name__ == '__main__':
    try:
        sys.exit(main())
    except MachineryError as e:
        print("MACHINERY FAILURE:", e)
        sys.exit(2)
