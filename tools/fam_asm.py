"""C05: every permutation back end equals the specification (portable C, assembly files, generators)."""
import os, json, re, glob, filecmp
from tjv import *
from fam_cipher import chunks, KLEN

GEN_DIRS = ['genarm', 'genriscv', 'genxtensa']


def perm_vectors(r, thorough):
    """structured + seeded (state, key) inputs"""
    def unit(n, i):
        b = bytearray(n); b[i // 8] |= 1 << (i % 8); return bytes(b)
    vec = []
    for v in (128, 192, 256):
        kb = KLEN[v]
        S = [bytes(16), b'\xff' * 16] + [unit(16, i) for i in ((0, 31, 32, 46, 47, 48, 69, 70, 71, 84, 85, 86, 90, 91, 92, 95, 96, 127)
                                                               if not thorough else range(128))]
        S += [bytes(a | b for a, b in zip(unit(16, 70), unit(16, 85))), bytes(a | b for a, b in zip(unit(16, 0), unit(16, 47)))]
        K = [bytes(kb), b'\xff' * kb] + [unit(kb, i) for i in ((0, 31, 32, 63, 64, 127, 8 * kb - 32, 8 * kb - 1) if not thorough else range(0, 8 * kb, 5))]
        for s in S:
            vec.append((v, s, r.bytes(kb)))
        for k in K:
            vec.append((v, r.bytes(16), k))
        for _ in range(12 if not thorough else 60):
            vec.append((v, r.bytes(16), r.bytes(kb)))
    return vec


def check_generators(chk):
    """part 3: the checked-in generated files are byte-identical to what the bundled generators emit"""
    wd = os.path.join(chk.wd, 'gen')
    os.makedirs(os.path.join(wd, 'src', 'backend'), exist_ok=True)
    shutil.copytree(os.path.join(REPO, 'tools'), os.path.join(wd, 'tools'))
    ngen = 0
    for d in GEN_DIRS:
        rc, out = sh(f"make -s -C {wd}/tools/{d} clean generate", timeout=300)
        if rc != 0:
            raise MachineryError(f"generator {d} does not build/run:\n{out[-1500:]}")
    produced = sorted(glob.glob(os.path.join(wd, 'src', 'backend', '*.S')))
    if len(produced) < 9:
        raise MachineryError(f"generators produced only {len(produced)} files")
    for p in produced:
        ref = os.path.join(REPO, 'src', 'backend', os.path.basename(p))
        ngen += 1
        same = os.path.exists(ref) and filecmp.cmp(p, ref, shallow=False)
        chk._distinct.add('gen:' + os.path.basename(p))
        if not same:
            rc, diff = sh(f"diff {ref} {p} | head -20")
            chk.violation(f"generated file {os.path.basename(p)} is not byte-identical to the bundled generator's output",
                          dict(kind='generator-output', file=os.path.basename(p), diff=diff[:1500]))
    chk.cov['generated_files_compared'] = ngen
    chk.cov['evaluations'] += ngen
    chk.log(f"{ngen} generated assembly files compared byte-for-byte with freshly built generator output")
    return produced


def check_C05(chk):
    r = Rng(chk.seed ^ 0xC05)
    # spec-internal: the accelerated permutation used everywhere equals the bit-serial definition
    m = tlc_model(chk.wd, 'MC_PermEquiv', workers=1)
    chk.add_model('MC_PermEquiv', m)
    # part 1: portable C back end against the bit-serial NLFSR, rounds 1..24
    vec = perm_vectors(r, chk.thorough)
    lines = []
    for i, (v, s, k) in enumerate(vec):
        rounds = [1, 2, 3, 5, 8, 9, 10, 20, 24][i % 9] if not chk.thorough else 1 + (i % 24)
        lines.append(f"perm id=p{i} v={v} rounds={rounds} s={hx(s)} k={hx(k)}")
    for v in (128, 192, 256):
        for rounds in range(1, 25):
            lines.append(f"perm id=r{v}-{rounds} v={v} rounds={rounds} s={r.hex(16)} k={r.hex(KLEN[v])}")
    groups = chunks(lines, 10)
    execs, seen, plans = [], set(), []
    for cfg in (['prod', 'dbg', 'alt3', 'portable', 'os'] + (['alt', 'o2', 'shared', 'uchar'] if chk.thorough else [])):
        exe = build_driver(chk.wd, cfg)
        if exe is None:
            continue
        chk.cov['builds'].append(cfg)
        ls = []
        for gi, g in enumerate(groups):
            ls.append(f"reset id=x{gi}"); ls.extend(g)
        ev, _ = run_driver(exe, ls)
        for ex in split_executions(ev):
            key = json.dumps(ex, sort_keys=True)
            if key not in seen:
                seen.add(key)
                if cfg != 'prod':
                    for e in ex:
                        e['id'] = f"{cfg}:{e.get('id')}"
                execs.append(ex)
    res = validate(chk.wd, 'TV_Perm', execs, cost=lambda e: e.get('rounds', 0) + 0.1)
    chk.add_validation('TV_Perm', res, execs)
    for (xi, ev, mm) in res['mismatches'][:6]:
        chk.violation(f"C back end: event {ev.get('id')} ({ev.get('e')}): expected {json.dumps(trim(mm.get('expected'), 20))[:200]}",
                      dict(trace_spec='TV_Perm', event=trim(ev, 40), expected=trim(mm.get('expected'), 40)))
    chk.sample(trim(execs[0][1], 16))
    # part 3: generators
    produced = check_generators(chk)
    # part 2: the assembly back ends, executed by TLC in the ISA model
    import isa
    isa.run_all(chk, r, produced)
    chk.finish(
        rule="(1) tinyjambu_permutation_{128,192,256} of the portable C back end on unit/pair/extreme/random states and keys for "
             "rounds 1..24, every call validated by TLC against the one-bit-per-step NLFSR (TV_Perm), on several builds; "
             "(2) every assembly file translated instruction by instruction into a TLA+ constant and executed by TLC in the ISA "
             "model (spec/isa): final state words = specification, only state words and the own stack frame written, "
             "callee-saved registers / stack pointer / return address restored, key unchanged, no branch or address depends on "
             "state or key bits; each 32-bit program is additionally run ONCE symbolically (Sym32: state and key bits are "
             "variables of GF(2) polynomials, cut and re-labelled at every round boundary), which shows for all 2^128 states "
             "and all keys that every round of the loop body is exactly Step^128 with that round's key offset; "
             "(3) the 21 generated files compared byte-for-byte with freshly built generator output, and the "
             "generator output itself run through (2)",
        assumptions=["the AVR files and the portable C back end are checked on concrete inputs only (structured and random states/keys); "
                     "the 32-bit assembly files are also covered for all inputs per round by the symbolic run, their loop "
                     "control over 1..24 rounds by the concrete runs",
                     "the ISA models cover only the instruction subsets the shipped files use; an instruction outside them is a machinery error"])
