"""Checks for the PRNG and the system entropy source: C15 C16 C17 C18."""
import os, json, re, itertools
from tjv import *
from fam_cipher import chunks
from fam_hash import anchor_hash, run_exec_groups, sim_plans, datav


def pcost(ev):
    e = ev.get('e')
    if ev.get('ctl') == 1:
        return 0.2 + ev.get('size', 0) / 3000.0
    if e == 'PGen':
        return 6 * ((ev['size'] + 31) // 32) + 8 * len(ev.get('ent', []))
    if e in ('PInit', 'PFeed', 'PReseed'):
        return 8 + len(ev.get('d', ev.get('custom', []))) // 16
    return 0.1


OS_WRAPS = ('getrandom', 'getentropy', 'syscall')


def build_prng_driver(chk, cfg='prod', variant='getrandom'):
    """variant selects which OS entropy call the library's system source is built to use"""
    has = set(HOST_HAS)
    if variant in ('getentropy', 'syscall'):
        has.discard('HAVE_GETRANDOM')
    if variant == 'syscall':
        has.discard('HAVE_GETENTROPY')
    return build_driver(chk.wd, cfg, has=None if variant == 'getrandom' else has, extra='-DTJD_WRAP_GETRANDOM', wraps=OS_WRAPS)


def script_items(r, dels):
    items = []
    for d in dels:
        if d == 'full':
            items.append('full:' + r.hex(32))
        elif d in ('fullz', 'fullf', 'fulle', 'fulll'):       # 32 bytes that happen to be all 00 / all FF / end in 00.. / begin with 00..
            items.append('full:' + {'fullz': '00' * 32, 'fullf': 'ff' * 32, 'fulle': r.hex(24) + '00' * 8, 'fulll': '00' * 8 + r.hex(24)}[d])
        elif d == 'shortz':
            items.append('short:' + '00' * r.choice([1, 16, 31]))
        elif d == 'echo':                                     # claims 32 bytes and leaves the buffer as it found it
            items.append('echo')
        elif d == 'short':
            items.append('short:' + r.hex(r.choice([1, 16, 31])))
        else:
            items.append('none')
    return items


def history_lines(r, hid, ops, dels, obj=0, src='cb', ctl=0):
    """ops: list of dict(op, arg). Returns plan lines; the script is installed first."""
    lines = []
    if dels:
        lines.append(f"script clear=1 items={'/'.join(script_items(r, dels))}")
    else:
        lines.append("script clear=1 items=")
    for k, o in enumerate(ops):
        i = f"{hid}-{k}"
        if o['op'] == 'pinit':
            cl = o.get('arg', 0)
            cu = datav(r, cl) if cl else ('null' if k % 2 == 0 else '-')
            lines.append(f"pinit id={i} obj={obj} custom={cu} src={o.get('src', src)} ctl={ctl}")
        elif o['op'] == 'pgen':
            lines.append(f"pgen id={i} obj={obj} size={o['arg']} ctl={ctl} pf={r.choice([0, 255, 165])} off={k % 8}")
        elif o['op'] == 'pfeed':
            lines.append(f"pfeed id={i} obj={obj} d={datav(r, o['arg']) if o['arg'] else ('null' if k % 2 else '-')} ctl={ctl}")
        elif o['op'] == 'preseed':
            lines.append(f"preseed id={i} obj={obj} ctl={ctl}")
        elif o['op'] == 'plimit':
            lines.append(f"plimit id={i} obj={obj} limit={o['arg']} ctl={ctl}")
        elif o['op'] == 'pfree':
            lines.append(f"pfree id={i} obj={obj}")
    return lines


def annotate_ctl(execs, groups):
    for ex, g in zip(execs, groups):
        ann = {}
        for ln in g:
            m = re.search(r'\bid=(\S+)', ln)
            mm = re.search(r'\bctl=(\d)', ln)
            if m and mm:
                ann[m.group(1)] = int(mm.group(1))
        for ev in ex:
            if ev.get('e', '').startswith('P'):
                ev['ctl'] = ann.get(ev.get('id'), 0)


def judge_p(chk, execs, groups):
    res = validate(chk.wd, 'TV_Prng', execs, cost=pcost)
    chk.add_validation('TV_Prng', res, execs)
    seen = set()
    for (xi, ev, mm) in res['mismatches']:
        if xi in seen:
            continue
        seen.add(xi)
        plan = ([f"reset id=x{xi}"] + groups[xi]) if xi < len(groups) else None
        chk.violation(f"event {ev.get('id')} ({ev.get('e')}) is not a behaviour of the specification: expected "
                      f"{json.dumps(trim(mm.get('expected'), 40))[:300]}",
                      dict(trace_spec='TV_Prng', plan=plan, event=trim(ev, 80), expected=trim(mm.get('expected'), 80)))
    return res


def model_histories(chk, r, n, ctl=0, prefix='s'):
    plans = sim_plans(chk, 'MC_DrbgCtl', 'MC_DrbgCtl_sim', n, 60, chk.seed % 100000)
    groups = []
    for pi, p in enumerate(plans):
        ops = p['ops']
        if not ops or ops[0]['op'] != 'pinit':
            continue
        for o in ops:
            if o['op'] == 'pinit':
                o['arg'] = [0, 0, 5, 32, 100][pi % 5]
        groups.append(history_lines(r, f"{prefix}{pi}", ops + ([dict(op='pfree')] if pi % 3 == 0 else []), p['dels'], obj=pi % 8, ctl=ctl))
    return groups, plans


def edge_histories(r):
    """hand-written families around the mechanisms the properties name"""
    H = []
    G = lambda n: dict(op='pgen', arg=n)
    I = lambda n=0: dict(op='pinit', arg=n)
    L = lambda n: dict(op='plimit', arg=n)
    F = lambda n: dict(op='pfeed', arg=n)
    R = dict(op='preseed')
    H.append(([I(), G(1056), G(32)], ['full', 'full', 'short']))                 # crosses the default 1024-byte limit inside one call
    H.append(([I(7), G(1000), G(100), G(1)], ['full', 'none']))                    # crosses it across calls
    H.append(([I(), L(64), G(200), L(32), G(100)], ['full', 'full', 'short', 'full', 'none', 'full', 'full']))
    H.append(([I(), L(1), G(96), F(3), G(33), L(0), G(65)], ['short'] + ['full'] * 8))
    H.append(([I(), F(1), F(0), F(40), G(31), R, G(33)], ['full', 'short']))
    H.append(([I(33), L(96), G(64), F(10), G(64), G(64)], ['full', 'full', 'full']))   # feed brings the reseed closer
    H.append(([I(), L(33), G(70), L(31), G(70)], ['none'] * 6))                         # rounding up / down of the limit
    H.append(([I(), L(1024), G(1024), G(1)], ['full', 'full']))
    H.append(([I(), L((1 << 64) - 1), G(96), L((1 << 64) - 30), G(64), G(40)], ['full', 'full']))      # "as rarely as possible"
    H.append(([I(300), F(1000), G(40), F(64), F(65), G(33)], ['full']))                   # long personalisation and feeds
    H.append(([I(), R, R, G(64), R, G(5), G(0), G(27)], ['short', 'none', 'full', 'short']))
    # the limit lowered below what was already produced and raised again before the next generate (the pending reseed is cancelled)
    H.append(([I(), G(160), L(64), L(1024), G(96), G(40)], ['full'] * 6))
    H.append(([I(), G(160), L(64), L(128), G(32), G(100)], ['full'] * 6))
    H.append(([I(), G(96), F(3), F(4), L(32), L(96), G(64), L(32), L(4096), G(70)], ['full'] * 8))
    # the default limit, never configured: 1 KiB, however the output is split
    H.append(([I(), G(512), G(600), G(2040)], ["full"] * 6))
    H.append(([I(5), G(2048), G(1030)], ["full"] * 6))
    # a configured limit survives reseeds (explicit and automatic)
    H.append(([I(), L(64), R, G(200), R, G(130)], ['full'] * 12))
    H.append(([I(), R, L(96), G(300), G(100)], ['full'] * 12))
    # the value of a delivery does not matter: all 00, all FF, zero tails / heads, at instantiate and at reseed
    for a, b in (('fullz', 'full'), ('fullf', 'fullz'), ('fulle', 'fulll'), ('full', 'fullz'), ('fullz', 'fullz'), ('shortz', 'fullf')):
        H.append(([I(), G(40), R, G(40), L(32), G(70)], [a, b, 'fullz', 'full', 'fullf']))
    # feeds while a reseed is pending, then the limit is raised (or not) before the next generate
    for lim in (32, 64, 96):
        for nf in (lim // 32, lim // 32 + 1, lim // 32 + 3):
            for raise_ in (0, 1):
                H.append(([I(), L(lim)] + [F(1 + k) for k in range(nf)] + ([L(1024)] if raise_ else []) + [G(70), F(2), G(40)], ['full'] * 8))
    return H


# ----------------------------------------------------------------------------- C15
def check_C15(chk):
    exe = build_prng_driver(chk)
    chk.cov['builds'].append('prod')
    anchor_hash(chk, 10)
    r = Rng(chk.seed ^ 0xC15)
    groups, plans = model_histories(chk, r, 260 if chk.thorough else 90)
    chk.cov['simulated_histories'] = len(groups)
    for hi, (ops, dels) in enumerate(edge_histories(r)):
        groups.append(history_lines(r, f"h{hi}", ops, dels, obj=hi % 8))
    # carry chains of V + Hash(3||V) + C + counter that sampling cannot reach: chosen states written into the object
    for ki, kind in enumerate(['wrap', 'wrap', 'ff', 'cff', 'zero', 'rand', 'wrap']):
        cnt = [32700, 9000, 5, 32760, 77, 1234, 32767][ki]
        groups.append(["script clear=1 items=" + '/'.join(script_items(r, ['full'] * 3)),
                       f"pinject id=j{ki}-i obj={ki % 8} kind={kind} counter={cnt} seed={r.randint(1, 10 ** 9)}",
                       f"pgen id=j{ki}-g obj={ki % 8} size=96 ctl=0 pf=165", f"pgen id=j{ki}-h obj={ki % 8} size=40 ctl=0 pf=0"])
    execs = run_exec_groups(exe, groups)
    annotate_ctl(execs, groups)
    judge_p(chk, execs, groups)
    chk.cov['injected_states'] = sum(1 for ex in execs for e in ex if e.get('e') == 'PInject')
    nres = sum(len(e.get('ent', [])) for ex in execs for e in ex if e.get('e') == 'PGen')
    chk.cov['automatic_reseeds_observed'] = nres
    if nres < 5:
        raise MachineryError("vacuous: hardly any automatic reseed in the C15 run")
    chk.sample([trim(e, 8) for e in execs[0][:5]])
    chk.sample(plans[0])
    chk.finish(
        rule="histories generated by TLC -simulate from MC_DrbgCtl (init with personalisation classes incl. NULL/0, generate sizes, "
             "feed, reseed, set-limit, every entropy request served by a scripted source with distinct full / short / empty "
             "deliveries) plus families around the default limit, lowered limits and feed; every call's output validated by TLC "
             "against the Hash_DRBG machine of TJDrbg over the interpreted TinyJAMBU-Hash: each block = Hash(V), V advanced by "
             "V + Hash(3||V) + C + counter, feed/reseed = Hash_df(1||V||material); distinct deliveries pin the position of every "
             "automatic reseed",
        assumptions=["the PRNG has no independent reference: the oracle is SP 800-90A 10.1.1 with the deviations README and header document",
                     "the scripted source writes exactly the bytes it reports"])


# ----------------------------------------------------------------------------- C16
def check_C16(chk):
    exe = build_prng_driver(chk)
    chk.cov['builds'].append('prod')
    anchor_hash(chk, 6)
    chk.add_model('MC_DrbgCtl', tlc_model(chk.wd, 'MC_DrbgCtl', cfg='MC_DrbgCtl_thorough' if chk.thorough else 'MC_DrbgCtl', workers=8))
    chk.add_model('MC_DrbgCtl(1 MiB limits)', tlc_model(chk.wd, 'MC_DrbgCtl', cfg='MC_DrbgCtl_big', workers=8))
    chk.add_model('MC_DrbgCtl(liveness)', tlc_model(chk.wd, 'MC_DrbgCtl', cfg='MC_DrbgCtl_live', workers=4))
    # unbounded sizes / limits / histories: the inductive invariant of the typed control skeleton, by Apalache
    ad = os.path.join(spec_copy(chk.wd), 'apalache')
    done = 0
    for init, length in (('Init', 0), ('IndInit', 1)):
        try:
            rc, out = sh(f"timeout 300 apalache-mc check --init={init} --inv=IndInv --length={length} "
                         f"--out-dir={chk.wd}/apa-{init} DrbgCtlInd.tla", cwd=ad, timeout=330)
        except Exception as e:
            rc, out = -1, str(e)
        if 'EXITCODE: OK' in out:
            done += 1
        elif 'violat' in out:
            raise MachineryError("Apalache: the inductive invariant of DrbgCtlInd does not hold:\n" + out[-1200:])
        else:
            chk.log(f"Apalache obligation {init}/{length} not discharged (tool unavailable or timeout); not part of the verdict")
    chk.cov['apalache_inductive_obligations_discharged'] = done
    chk.log(f"Apalache discharged {done}/2 obligations of DrbgCtlInd!IndInv (unbounded sizes, limits, histories)")
    r = Rng(chk.seed ^ 0xC16)
    G = lambda n: dict(op='pgen', arg=n)
    I = lambda n=0: dict(op='pinit', arg=n)
    L = lambda n: dict(op='plimit', arg=n)
    F = lambda n: dict(op='pfeed', arg=n)
    R = dict(op='preseed')
    groups = []
    # control-level histories: long, limits up to and beyond 1 MiB, everything the data level cannot afford
    big = [
        [I(), L(1 << 20), G((1 << 20) + 64), G(32)],
        [I(), L((1 << 20) + 1), G((1 << 20) + 4096)],
        [I(), L(2 << 20), G((1 << 20) + 4096), G(100)],
        [I(), L(0xFFFFFFFFFFFF), G((1 << 20) + 33)],
        [I(), L((1 << 64) - 1), G(4096), L((1 << 64) - 31), G(4096), L((1 << 63)), G(2048)],
        [I(), L(0), G(4096)],
        [I(), L(31), G(4096)], [I(), L(33), G(4096)], [I(), L(1), G(100), L(4096), G(8192), L(64), G(8192)],
        [I(), G(4000), F(1), G(4000)] + [F(2)] * 40 + [G(64)],
        [I(), L(65536), G(60000)] + [F(1), G(32)] * 30 + [G(70000)],
        [I(), L(1 << 19), G(1 << 19), R, G(1 << 19), G(1 << 19), G(1)],
        [I(), G(32)] + [F(0)] * 66000 + [G(1056), G(32)],                 # more feeds than a 16-bit counter can count
        [I(), L(1 << 20), G((1 << 20) - 32)] + [F(1)] * 33000 + [G(64)],
    ]
    if chk.thorough:
        big += [[I(), L(1 << 20)] + [G(99999)] * 25, [I(), L(777)] + [G(r.randint(0, 5000)) for _ in range(200)],
                [I()] + [x for _ in range(100) for x in (L(r.choice([0, 1, 32, 33, 1000, 5000])), G(r.randint(0, 9000)), F(1))]]
    for bi, ops in enumerate(big):
        groups.append(history_lines(r, f"b{bi}", ops + [dict(op='pfree')], [], obj=bi % 8, ctl=1))
    sims, _ = model_histories(chk, r, 120 if chk.thorough else 40, ctl=1, prefix='c')
    groups.extend(sims)
    # data-level histories (positions of the reseeds pinned by the output bytes)
    dsims, _ = model_histories(chk, r, 60 if chk.thorough else 24, ctl=0, prefix='d')
    groups.extend(dsims)
    for hi, (ops, dels) in enumerate(edge_histories(r)):
        groups.append(history_lines(r, f"h{hi}", ops, dels, obj=hi % 8))
    execs = run_exec_groups(exe, groups, timeout=1800)
    annotate_ctl(execs, groups)
    judge_p(chk, execs, groups)
    nres = sum(len(e.get('ent', [])) for ex in execs for e in ex if e.get('e') == 'PGen')
    chk.cov['automatic_reseeds_observed'] = nres
    if nres < 20:
        raise MachineryError("vacuous: hardly any automatic reseed in the C16 run")
    chk.sample([trim(e, 6) for e in execs[0][:5]])
    chk.finish(
        rule="MC_DrbgCtl: TLC exhaustive over all histories of init/generate/feed/reseed/set-limit (per-block steps, all delivery "
             "kinds) within MaxOps; action property ReseedBound (since' <= 32*limit at every block), invariant since <= "
             "32*(counter-1), FeedMonotone, LimitRule (min 1 block, round up, clamp 1 MiB), a 1 MiB-limit instance, and "
             "liveness (every generate returns); bound to the code by control-level trace validation (number and output "
             "positions of the entropy requests inside every call, observed through the scripted source, must be the control "
             "machine's; limits 0, 1, 31, 33, 2^20, 2^20+1, 2^48; 1 MiB generated in one call) and data-level validation as in C15",
        assumptions=["requests to the entropy source are observed at the callback interface of tinyjambu_prng_init_user",
                     "the position of a request inside a generate call is read off the output buffer (bytes already written), "
                     "rounded to whole 32-byte blocks"])


# ----------------------------------------------------------------------------- C17
def check_C17(chk):
    exe = build_prng_driver(chk)
    chk.cov['builds'].append('prod')
    anchor_hash(chk, 6)
    chk.add_model('MC_DrbgCtl', tlc_model(chk.wd, 'MC_DrbgCtl', cfg='MC_DrbgCtl', workers=8))
    r = Rng(chk.seed ^ 0xC17)
    G = lambda n: dict(op='pgen', arg=n)
    L = lambda n: dict(op='plimit', arg=n)
    R = dict(op='preseed')
    groups = []
    kmax = 6 if chk.thorough else 4
    pats = [p for k in range(1, kmax + 1) for p in itertools.product(['full', 'short', 'none'], repeat=k)]
    chk.cov['fault_patterns'] = len(pats)
    for pi, p in enumerate(pats):
        # the pattern is consumed, in order, by: init, an automatic reseed, an explicit reseed, automatic, explicit, ...
        # (every third history reseeds explicitly right after init and right after a reseed, with nothing in between)
        if pi % 3 == 2:
            ops = [dict(op='pinit', arg=[0, 0, 9, 40][pi % 4])] + [R] * len(p) + [L(32), G(64), R, R, G(33)]
        else:
            ops = [dict(op='pinit', arg=[0, 0, 9, 40][pi % 4]), L(32), G(64)]
            for k in range(len(p)):
                ops += [R, G(33)] if k % 2 == 0 else [G(64)]
        ops += [G(32), G(32)]
        groups.append(history_lines(r, f"p{pi}", ops, list(p), obj=pi % 8))
    # the status depends on how many bytes were delivered, never on their value: deliveries that are all 00 / all FF / end or
    # begin with a run of 00, full and short, at init and at explicit and automatic reseeds
    vals = ['fullz', 'fullf', 'fulle', 'fulll', 'shortz', 'echo']
    for vi, (a, b, c) in enumerate([(x, y, z) for x in vals for y in ('full', 'fullz', 'shortz', 'echo') for z in ('fullz', 'none', 'echo')]):
        ops = [dict(op='pinit', arg=[0, 7][vi % 2]), G(40), R, G(33), L(32), G(64), G(32)]
        groups.append(history_lines(r, f"v{vi}", ops, [a, b, c, 'full'], obj=vi % 8))
    # NULL callback = system source = plain init; the OS call is interposed and scripted (full or failing)
    for si, p in enumerate([q for k in (1, 2, 3) for q in itertools.product(['full', 'none'], repeat=k)] + [('fullz', 'fullf'), ('fullf', 'fullz', 'full')]):
        for src in ('null', 'plain', 'cb'):
            ops = [dict(op='pinit', arg=[0, 12][si % 2], src=src), G(40), R, G(32), L(32), G(64), G(32)]
            groups.append(history_lines(r, f"n{si}-{src}", ops, list(p), obj=si % 8, src=src))
    execs = run_exec_groups(exe, groups)
    annotate_ctl(execs, groups)
    # the same system-source histories with the library built for getentropy() and for the raw system call
    sysg = [g for g in groups if any('src=null' in ln or 'src=plain' in ln for ln in g)]
    for variant in ('getentropy', 'syscall'):
        try:
            exe_v = build_prng_driver(chk, variant=variant)
        except MachineryError as e:
            chk.log(f"note: the {variant} variant cannot be built from this tree ({str(e)[:100]})")
            continue
        chk.cov['builds'].append(f'prod:{variant}')
        ex_v = run_exec_groups(exe_v, sysg)
        annotate_ctl(ex_v, sysg)
        for ex in ex_v:
            for e in ex:
                e['id'] = f"{variant}:{e.get('id')}"
        execs += ex_v
        groups += sysg
    judge_p(chk, execs, groups)
    nfail = sum(1 for ex in execs for e in ex if e.get('e') in ('PInit', 'PReseed') and e.get('res') == 0)
    nok = sum(1 for ex in execs for e in ex if e.get('e') in ('PInit', 'PReseed') and e.get('res') != 0)
    chk.cov['failed_seedings_observed'] = nfail
    chk.cov['successful_seedings_observed'] = nok
    if nfail < 5 or nok < 5:
        raise MachineryError("vacuous: the fault patterns did not produce both failed and successful seedings")
    chk._distinct.update(str(p) for p in pats)
    chk.sample([trim(e, 6) for e in execs[5][:6]])
    chk.finish(
        rule="every pattern of {full, short(1/16/31 bytes), none} over up to 4 (thorough 6) successive entropy requests - init, "
             "automatic reseeds (limit lowered to one block) and explicit reseeds - with NULL/0 and non-empty personalisation; "
             "TLC checks on every event: status non-zero iff 32 bytes delivered, outputs equal the Hash_DRBG machine with the "
             "delivered bytes mixed in (a failed delivery leaves the generator usable), no block repeats; a crash is a Fault "
             "event without a matching action; NULL callback, plain init and an explicit callback are run against the same "
             "scripted OS source (getrandom interposed at link time) and must all equal the specification",
        assumptions=["short deliveries write exactly the reported number of bytes",
                     "the built-in system source is exercised through link-time interposition of getrandom()"])


# ----------------------------------------------------------------------------- C18
TRNG_SRC = 'src/random/tinyjambu-trng-dev-random.c'
WRAPS = ('getrandom', 'getentropy', 'syscall', 'open', 'read', 'close', 'gettimeofday', 'clock_gettime', 'time')


def build_trng_variant(chk, name, cc='gcc', opt='-O3'):
    has = set(HOST_HAS)
    extra = ''
    if name in ('getentropy', 'syscall', 'dev'):
        has.discard('HAVE_GETRANDOM')
    if name in ('syscall', 'dev'):
        has.discard('HAVE_GETENTROPY')
    if name == 'dev':
        extra = f'-I{VERIF}/harness/shim'
    od = os.path.join(chk.wd, f'trng-{name}-{cc}{opt}')
    os.makedirs(od, exist_ok=True)
    write_config_h(od, has)
    obj = os.path.join(od, 'trng.o')
    sh(f"{cc} {opt} -Wall -std=gnu99 -DHAVE_CONFIG_H {extra} -I{REPO}/src -I{od} -c {REPO}/{TRNG_SRC} -o {obj}", check=True)
    exe = os.path.join(od, 'trngdrive')
    sh(f"{cc} -O1 {VERIF}/harness/trngdrive.c {obj} {' '.join('-Wl,--wrap=' + w for w in WRAPS)} -o {exe}", check=True)
    return exe


FN2VARIANT = {'getrandom': 'getrandom', 'getentropy': 'getentropy', 'syscall': 'syscall', 'open': 'dev'}


def check_C18(chk):
    anchor_hash(chk, 4)
    chk.add_model('MC_Trng(safety)', tlc_model(chk.wd, 'MC_Trng', cfg='MC_Trng', workers=4))
    chk.add_model('MC_Trng(liveness)', tlc_model(chk.wd, 'MC_Trng', cfg='MC_Trng_live', workers=4))
    # every fault sequence of the model with at most K transient failures, per variant
    K = 5 if chk.thorough else 3
    sd = spec_copy(chk.wd)
    open(os.path.join(sd, 'MC_Trng_plan.cfg'), 'w').write(
        f"SPECIFICATION Spec\nCONSTANTS MaxTransient = {K}  SimDepth = 100\nINVARIANT PlanOut\nCHECK_DEADLOCK FALSE\n")
    rc, out = tlc_run(chk.wd, 'MC_Trng', cfg='MC_Trng_plan', workers=1, timeout=600)
    seqs = {}
    for line in out.splitlines():
        m = re.match(r'<<"PLAN", (".*")>>\s*$', line)
        if m:
            p = json.loads(json.loads(m.group(1)))
            seqs.setdefault(p['variant'], []).append(p['seq'])
    if len(seqs) != 4:
        raise MachineryError("MC_Trng produced no fault sequences:\n" + out[-1500:])
    chk.cov['fault_sequences'] = {v: len(s) for v, s in seqs.items()}
    r = Rng(chk.seed ^ 0xC18)
    perms = [1, 38, 5, 14, 22, 13, 4 + 100]      # EPERM ENOSYS EIO EFAULT EINVAL EACCES, and an unusual one
    builds = [('gcc', '-O3')] + ([('clang', '-O2'), ('gcc', '-O0')] if chk.thorough else [])
    execs, observed = [], set()
    for cc, opt in builds:
        for variant in ('getrandom', 'getentropy', 'syscall', 'dev'):
            exe = build_trng_variant(chk, variant, cc, opt)
            chk.cov['builds'].append(f"{variant}:{cc}{opt}")
            lines = []
            for si, seq in enumerate(seqs[variant]):
                items = []
                for o in seq:
                    if o == 'PERM':
                        items.append(f"PERM:{perms[si % len(perms)]}")
                    elif o == 'OPENFAIL':
                        items.append(f"OPENFAIL:{[2, 13, 24][si % 3]}")
                    elif o == 'SHORT':
                        items.append(f"SHORT:{[1, 16, 31][si % 3]}")
                    elif o == 'PARTIAL':
                        items.append(f"PARTIAL:{[16, 1, 31, 8][si % 4]}")
                    else:
                        items.append(o)
                # every third sequence runs with the process out of file descriptors (any other open() fails with EMFILE):
                # transient errors must still be retried, whatever else the source tries to open meanwhile
                lines.append(f"seq id={variant}-{cc}{opt}-{si} prefill={[0, 255, 165, 85][si % 4]} errno={[0, 11, 4, 0, 5][si % 5]} denyopen={1 if si % 3 == 1 else 0} items={','.join(items)}")
            # long but finite transient runs, then success or a permanent error
            for n in ([17, 40, 1000] + ([20000] if chk.thorough else [])):
                for it in ('EINTR', 'EAGAIN'):
                    lines.append(f"seq id={variant}-{cc}{opt}-long{n}{it} prefill=165 denyopen={1 if n == 17 else 0} rep={n}:{it} items=OK")
                lines.append(f"seq id={variant}-{cc}{opt}-long{n}perm prefill=255 rep={n}:EINTR items=EAGAIN,PERM:5")
            p = subprocess.run([exe], input='\n'.join(lines) + '\n', stdout=subprocess.PIPE, stderr=subprocess.PIPE, text=True, timeout=600)
            evs = [json.loads(x) for x in p.stdout.splitlines() if x.startswith('{')]
            if not evs or evs[-1].get('e') != 'End':
                evs.append({"e": "Fault", "id": evs[-1].get('id', '?') if evs else '?', "op": "trng", "sig": p.returncode, "buf": "none", "rel": 0})
            else:
                evs.pop()
            # one execution per sequence: Start(variant as observed from the first OS call) then its events
            cur = []
            for ev in evs:
                cur.append(ev)
                if ev['e'] in ('Trng', 'Fault', 'Hang'):
                    first = next((x for x in cur if x['e'] == 'Os'), None)
                    v = FN2VARIANT.get(first['fn'], variant) if first else variant
                    observed.add(v)
                    execs.append([{"e": "Start", "id": ev['id'], "variant": v}] + cur)
                    cur = []
    chk.cov['variants_observed'] = sorted(observed)
    if not observed:
        raise MachineryError("no variant of the system entropy source could be built and observed")
    if not {'getrandom', 'getentropy', 'syscall'} <= observed:
        chk.log(f"note: only the variants {sorted(observed)} could be produced from this tree; the others are not exercised")
    # TV_Trng has no Reset: concatenate the executions, many per shard
    packed = [sum(execs[i:i + 40], []) for i in range(0, len(execs), 40)]
    res = validate(chk.wd, 'TV_Trng', packed, cost=lambda e: 1)
    chk.add_validation('TV_Trng', res, packed, nontrivial=lambda e: e.get('e') == 'Trng')
    chk.cov['traces_validated_against_impl'] += len(execs) - len(packed)
    seen = set()
    for (xi, ev, mm) in res['mismatches']:
        key = ev.get('id')
        if key in seen:
            continue
        seen.add(key)
        ex = [x for x in execs if x[0]['id'] == key]
        chk.violation(f"system entropy source, sequence {key}: {json.dumps(mm.get('expected'))[:200]}",
                      dict(trace_spec='TV_Trng', events=trim(ex[0] if ex else ev, 40), expected=mm.get('expected')))
    # the source of last resort (no entropy source known): time hash, result 0; application escape hatch
    none_events = []
    for hatch in (0, 1):
        od = os.path.join(chk.wd, f'trng-none-{hatch}')
        os.makedirs(od, exist_ok=True)
        write_config_h(od, None)
        srcs = f"{REPO}/src/random/tinyjambu-trng-none.c {REPO}/src/tinyjambu-hash.c {REPO}/src/backend/tinyjambu-256-c32.c {REPO}/src/backend/tinyjambu-clean.c"
        rc, out = sh(f"gcc -O2 -w -std=gnu99 -DHAVE_CONFIG_H -DTINYJAMBU_TRNG_SELECT_H -DTINYJAMBU_TRNG_NONE=1 {'-DNONE_WITH_HATCH' if hatch else ''} "
                     f"-I{REPO}/src -I{od} {VERIF}/harness/nonedrive.c {srcs} -Wl,--wrap=clock_gettime -Wl,--wrap=gettimeofday -Wl,--wrap=time "
                     f"-o {od}/nonedrive")
        if rc != 0:
            chk.log(f"note: the no-entropy-source fallback cannot be built from this tree ({out[-200:]})")
            continue
        chk.cov['builds'].append(f"none:{'hatch' if hatch else 'plain'}")
        lines = [f"none id=none{hatch}-{g}{o}-{t} good={g} ok={o} t={t}" for g in ((0, 1) if hatch else (0,)) for o in ((0, 1) if hatch else (0,)) for t in (1, 2, 77, 123456)]
        p = subprocess.run([f"{od}/nonedrive"], input='\n'.join(lines) + '\n', stdout=subprocess.PIPE, stderr=subprocess.PIPE, text=True, timeout=120)
        evs = [json.loads(x) for x in p.stdout.splitlines() if x.startswith('{')]
        if not evs or evs[-1].get('e') != 'End':
            evs.append({"e": "Fault", "id": "none", "op": "trng-none", "sig": p.returncode, "buf": "none", "rel": 0})
        else:
            evs.pop()
        none_events += evs
    if none_events:
        resn = validate(chk.wd, 'TV_TrngNone', [none_events], shards=1)
        chk.add_validation('TV_TrngNone', resn, [none_events])
        for (xi, ev, mm) in resn['mismatches'][:4]:
            chk.violation(f"entropy source of last resort, {ev.get('id')}: expected {json.dumps(trim(mm.get('expected'), 12))[:200]}",
                          dict(trace_spec='TV_TrngNone', event=trim(ev, 40), expected=trim(mm.get('expected'), 40)))
    # the PRNG on top of a failing system source: reports 'not seeded' and stays usable
    exe = build_prng_driver(chk)
    groups = []
    for si, p in enumerate([('none',), ('none', 'none', 'full'), ('full', 'none')]):
        for src in ('plain', 'null'):
            ops = [dict(op='pinit', arg=[0, 7][si % 2], src=src), dict(op='pgen', arg=64), dict(op='preseed'), dict(op='pgen', arg=40),
                   dict(op='plimit', arg=32), dict(op='pgen', arg=64)]
            groups.append(history_lines(r, f"os{si}-{src}", ops, list(p), obj=si, src=src))
    ex2 = run_exec_groups(exe, groups)
    annotate_ctl(ex2, groups)
    judge_p(chk, ex2, groups)
    chk.sample([trim(e, 8) for e in execs[3]])
    chk.sample([trim(e, 8) for e in execs[-1][:4] + execs[-1][-1:]])
    chk.finish(
        rule="MC_Trng: TLC exhaustive over every OS outcome sequence with up to 8 transient failures for the four build variants "
             "(safety: success iff OK before any permanent error, zeroed buffer on failure, no descriptor leak, one verdict; "
             "liveness under fairness: the call returns); every sequence of the model with up to K transients (plus runs of "
             "17/40/1000 transients, short reads, open failures, several errno values) is injected into the real source file "
             "built as getrandom / getentropy / raw syscall / /dev/urandom variants through link-time interposition, and TLC "
             "validates each recorded OS-call trace against the machine of TJTrng; the source of last resort "
             "(tinyjambu-trng-none.c, force-selected, scripted clock, application escape hatch on/off) is validated against "
             "TV_TrngNone (time hash and result 0 unless a good hatch delivers); the PRNG on top of a failing source is "
             "validated against TJDrbg (status 0, usable, zero seed)",
        assumptions=["end-of-file on /dev/urandom (read returning 0) is not in the property's fault alphabet and is not injected",
                     "the variant of a build is recognised from the first OS function it calls"])
