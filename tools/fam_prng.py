"""Checks for the PRNG and the system entropy source: C15 C16 C17 C18."""
import os, json, re, itertools
from tjv import *
from fam_cipher import chunks
from fam_hash import anchor_hash, run_exec_groups, sim_plans, datav


def pcost(ev):
    e = ev.get('e')
    if ev.get('ctl') == 1:
        return 0.2 + ev.get('size', 0) / 3000.0
    if e == 'PGen':
        return 6 * ((ev['size'] + 31) // 32) + 8 * len(ev.get('ent', []))
    if e in ('PInit', 'PFeed', 'PReseed'):
        return 8 + len(ev.get('d', ev.get('custom', []))) // 16
    return 0.1


def build_prng_driver(chk, cfg='prod'):
    return build_driver(chk.wd, cfg, extra='-DTJD_WRAP_GETRANDOM', wraps=('getrandom',))


def script_items(r, dels):
    items = []
    for d in dels:
        if d == 'full':
            items.append('full:' + r.hex(32))
        elif d == 'short':
            items.append('short:' + r.hex(r.choice([1, 16, 31])))
        else:
            items.append('none')
    return items


def history_lines(r, hid, ops, dels, obj=0, src='cb', ctl=0):
    """ops: list of dict(op, arg). Returns plan lines; the script is installed first."""
    lines = []
    if dels:
        lines.append(f"script clear=1 items={'/'.join(script_items(r, dels))}")
    else:
        lines.append("script clear=1 items=")
    for k, o in enumerate(ops):
        i = f"{hid}-{k}"
        if o['op'] == 'pinit':
            cl = o.get('arg', 0)
            cu = datav(r, cl) if cl else ('null' if k % 2 == 0 else '-')
            lines.append(f"pinit id={i} obj={obj} custom={cu} src={o.get('src', src)} ctl={ctl}")
        elif o['op'] == 'pgen':
            lines.append(f"pgen id={i} obj={obj} size={o['arg']} ctl={ctl} pf={r.choice([0, 255, 165])} off={k % 8}")
        elif o['op'] == 'pfeed':
            lines.append(f"pfeed id={i} obj={obj} d={datav(r, o['arg']) if o['arg'] else ('null' if k % 2 else '-')} ctl={ctl}")
        elif o['op'] == 'preseed':
            lines.append(f"preseed id={i} obj={obj} ctl={ctl}")
        elif o['op'] == 'plimit':
            lines.append(f"plimit id={i} obj={obj} limit={o['arg']} ctl={ctl}")
        elif o['op'] == 'pfree':
            lines.append(f"pfree id={i} obj={obj}")
    return lines


def annotate_ctl(execs, groups):
    for ex, g in zip(execs, groups):
        ann = {}
        for ln in g:
            m = re.search(r'\bid=(\S+)', ln)
            mm = re.search(r'\bctl=(\d)', ln)
            if m and mm:
                ann[m.group(1)] = int(mm.group(1))
        for ev in ex:
            if ev.get('e', '').startswith('P'):
                ev['ctl'] = ann.get(ev.get('id'), 0)


def judge_p(chk, execs, groups):
    res = validate(chk.wd, 'TV_Prng', execs, cost=pcost)
    chk.add_validation('TV_Prng', res, execs)
    seen = set()
    for (xi, ev, mm) in res['mismatches']:
        if xi in seen:
            continue
        seen.add(xi)
        plan = ([f"reset id=x{xi}"] + groups[xi]) if xi < len(groups) else None
        chk.violation(f"event {ev.get('id')} ({ev.get('e')}) is not a behaviour of the specification: expected "
                      f"{json.dumps(trim(mm.get('expected'), 40))[:300]}",
                      dict(trace_spec='TV_Prng', plan=plan, event=trim(ev, 80), expected=trim(mm.get('expected'), 80)))
    return res


def model_histories(chk, r, n, ctl=0, prefix='s'):
    plans = sim_plans(chk, 'MC_DrbgCtl', 'MC_DrbgCtl_sim', n, 60, chk.seed % 100000)
    groups = []
    for pi, p in enumerate(plans):
        ops = p['ops']
        if not ops or ops[0]['op'] != 'pinit':
            continue
        for o in ops:
            if o['op'] == 'pinit':
                o['arg'] = [0, 0, 5, 32, 100][pi % 5]
        groups.append(history_lines(r, f"{prefix}{pi}", ops + ([dict(op='pfree')] if pi % 3 == 0 else []), p['dels'], obj=pi % 8, ctl=ctl))
    return groups, plans


def edge_histories(r):
    """hand-written families around the mechanisms the properties name"""
    H = []
    G = lambda n: dict(op='pgen', arg=n)
    I = lambda n=0: dict(op='pinit', arg=n)
    L = lambda n: dict(op='plimit', arg=n)
    F = lambda n: dict(op='pfeed', arg=n)
    R = dict(op='preseed')
    H.append(([I(), G(1056), G(32)], ['full', 'full', 'short']))                 # crosses the default 1024-byte limit inside one call
    H.append(([I(7), G(1000), G(100), G(1)], ['full', 'none']))                    # crosses it across calls
    H.append(([I(), L(64), G(200), L(32), G(100)], ['full', 'full', 'short', 'full', 'none', 'full', 'full']))
    H.append(([I(), L(1), G(96), F(3), G(33), L(0), G(65)], ['short'] + ['full'] * 8))
    H.append(([I(), F(1), F(0), F(40), G(31), R, G(33)], ['full', 'short']))
    H.append(([I(33), L(96), G(64), F(10), G(64), G(64)], ['full', 'full', 'full']))   # feed brings the reseed closer
    H.append(([I(), L(33), G(70), L(31), G(70)], ['none'] * 6))                         # rounding up / down of the limit
    H.append(([I(), L(1024), G(1024), G(1)], ['full', 'full']))
    H.append(([I(), R, R, G(64), R, G(5), G(0), G(27)], ['short', 'none', 'full', 'short']))
    return H


# ----------------------------------------------------------------------------- C15
def check_C15(chk):
    exe = build_prng_driver(chk)
    chk.cov['builds'].append('prod')
    anchor_hash(chk, 10)
    r = Rng(chk.seed ^ 0xC15)
    groups, plans = model_histories(chk, r, 260 if chk.thorough else 90)
    chk.cov['simulated_histories'] = len(groups)
    for hi, (ops, dels) in enumerate(edge_histories(r)):
        groups.append(history_lines(r, f"h{hi}", ops, dels, obj=hi % 8))
    execs = run_exec_groups(exe, groups)
    annotate_ctl(execs, groups)
    judge_p(chk, execs, groups)
    nres = sum(len(e.get('ent', [])) for ex in execs for e in ex if e.get('e') == 'PGen')
    chk.cov['automatic_reseeds_observed'] = nres
    if nres < 5:
        raise MachineryError("vacuous: hardly any automatic reseed in the C15 run")
    chk.sample([trim(e, 8) for e in execs[0][:5]])
    chk.sample(plans[0])
    chk.finish(
        rule="histories generated by TLC -simulate from MC_DrbgCtl (init with personalisation classes incl. NULL/0, generate sizes, "
             "feed, reseed, set-limit, every entropy request served by a scripted source with distinct full / short / empty "
             "deliveries) plus families around the default limit, lowered limits and feed; every call's output validated by TLC "
             "against the Hash_DRBG machine of TJDrbg over the interpreted TinyJAMBU-Hash: each block = Hash(V), V advanced by "
             "V + Hash(3||V) + C + counter, feed/reseed = Hash_df(1||V||material); distinct deliveries pin the position of every "
             "automatic reseed",
        assumptions=["the PRNG has no independent reference: the oracle is SP 800-90A 10.1.1 with the deviations README and header document",
                     "the scripted source writes exactly the bytes it reports"])


# ----------------------------------------------------------------------------- C16
def check_C16(chk):
    exe = build_prng_driver(chk)
    chk.cov['builds'].append('prod')
    anchor_hash(chk, 6)
    chk.add_model('MC_DrbgCtl', tlc_model(chk.wd, 'MC_DrbgCtl', cfg='MC_DrbgCtl_thorough' if chk.thorough else 'MC_DrbgCtl', workers=8))
    chk.add_model('MC_DrbgCtl(1 MiB limits)', tlc_model(chk.wd, 'MC_DrbgCtl', cfg='MC_DrbgCtl_big', workers=8))
    chk.add_model('MC_DrbgCtl(liveness)', tlc_model(chk.wd, 'MC_DrbgCtl', cfg='MC_DrbgCtl_live', workers=4))
    r = Rng(chk.seed ^ 0xC16)
    G = lambda n: dict(op='pgen', arg=n)
    I = lambda n=0: dict(op='pinit', arg=n)
    L = lambda n: dict(op='plimit', arg=n)
    F = lambda n: dict(op='pfeed', arg=n)
    R = dict(op='preseed')
    groups = []
    # control-level histories: long, limits up to and beyond 1 MiB, everything the data level cannot afford
    big = [
        [I(), L(1 << 20), G((1 << 20) + 64), G(32)],
        [I(), L((1 << 20) + 1), G((1 << 20) + 4096)],
        [I(), L(2 << 20), G((1 << 20) + 4096), G(100)],
        [I(), L(0xFFFFFFFFFFFF), G((1 << 20) + 33)],
        [I(), L(0), G(4096)],
        [I(), L(31), G(4096)], [I(), L(33), G(4096)], [I(), L(1), G(100), L(4096), G(8192), L(64), G(8192)],
        [I(), G(4000), F(1), G(4000)] + [F(2)] * 40 + [G(64)],
        [I(), L(65536), G(60000)] + [F(1), G(32)] * 30 + [G(70000)],
        [I(), L(1 << 19), G(1 << 19), R, G(1 << 19), G(1 << 19), G(1)],
    ]
    if chk.thorough:
        big += [[I(), L(1 << 20)] + [G(99999)] * 25, [I(), L(777)] + [G(r.randint(0, 5000)) for _ in range(200)],
                [I()] + [x for _ in range(100) for x in (L(r.choice([0, 1, 32, 33, 1000, 5000])), G(r.randint(0, 9000)), F(1))]]
    for bi, ops in enumerate(big):
        groups.append(history_lines(r, f"b{bi}", ops + [dict(op='pfree')], [], obj=bi % 8, ctl=1))
    sims, _ = model_histories(chk, r, 120 if chk.thorough else 40, ctl=1, prefix='c')
    groups.extend(sims)
    # data-level histories (positions of the reseeds pinned by the output bytes)
    dsims, _ = model_histories(chk, r, 60 if chk.thorough else 24, ctl=0, prefix='d')
    groups.extend(dsims)
    for hi, (ops, dels) in enumerate(edge_histories(r)):
        groups.append(history_lines(r, f"h{hi}", ops, dels, obj=hi % 8))
    execs = run_exec_groups(exe, groups, timeout=1800)
    annotate_ctl(execs, groups)
    judge_p(chk, execs, groups)
    nres = sum(len(e.get('ent', [])) for ex in execs for e in ex if e.get('e') == 'PGen')
    chk.cov['automatic_reseeds_observed'] = nres
    if nres < 20:
        raise MachineryError("vacuous: hardly any automatic reseed in the C16 run")
    chk.sample([trim(e, 6) for e in execs[0][:5]])
    chk.finish(
        rule="MC_DrbgCtl: TLC exhaustive over all histories of init/generate/feed/reseed/set-limit (per-block steps, all delivery "
             "kinds) within MaxOps; action property ReseedBound (since' <= 32*limit at every block), invariant since <= "
             "32*(counter-1), FeedMonotone, LimitRule (min 1 block, round up, clamp 1 MiB), a 1 MiB-limit instance, and "
             "liveness (every generate returns); bound to the code by control-level trace validation (number and output "
             "positions of the entropy requests inside every call, observed through the scripted source, must be the control "
             "machine's; limits 0, 1, 31, 33, 2^20, 2^20+1, 2^48; 1 MiB generated in one call) and data-level validation as in C15",
        assumptions=["requests to the entropy source are observed at the callback interface of tinyjambu_prng_init_user",
                     "the position of a request inside a generate call is read off the output buffer (bytes already written), "
                     "rounded to whole 32-byte blocks"])


# ----------------------------------------------------------------------------- C17
def check_C17(chk):
    exe = build_prng_driver(chk)
    chk.cov['builds'].append('prod')
    anchor_hash(chk, 6)
    chk.add_model('MC_DrbgCtl', tlc_model(chk.wd, 'MC_DrbgCtl', cfg='MC_DrbgCtl', workers=8))
    r = Rng(chk.seed ^ 0xC17)
    G = lambda n: dict(op='pgen', arg=n)
    L = lambda n: dict(op='plimit', arg=n)
    R = dict(op='preseed')
    groups = []
    kmax = 6 if chk.thorough else 4
    pats = [p for k in range(1, kmax + 1) for p in itertools.product(['full', 'short', 'none'], repeat=k)]
    chk.cov['fault_patterns'] = len(pats)
    for pi, p in enumerate(pats):
        # the pattern is consumed, in order, by: init, an automatic reseed, an explicit reseed, automatic, explicit, ...
        ops = [dict(op='pinit', arg=[0, 0, 9, 40][pi % 4]), L(32), G(64)]
        for k in range(len(p)):
            ops += [R, G(33)] if k % 2 == 0 else [G(64)]
        ops += [G(32), G(32)]
        groups.append(history_lines(r, f"p{pi}", ops, list(p), obj=pi % 8))
    # NULL callback = system source = plain init; the OS call is interposed and scripted (full or failing)
    for si, p in enumerate([q for k in (1, 2, 3) for q in itertools.product(['full', 'none'], repeat=k)]):
        for src in ('null', 'plain', 'cb'):
            ops = [dict(op='pinit', arg=[0, 12][si % 2], src=src), G(40), R, G(32), L(32), G(64), G(32)]
            groups.append(history_lines(r, f"n{si}-{src}", ops, list(p), obj=si % 8, src=src))
    execs = run_exec_groups(exe, groups)
    annotate_ctl(execs, groups)
    # the two system-source spellings must be served identically
    judge_p(chk, execs, groups)
    nfail = sum(1 for ex in execs for e in ex if e.get('e') in ('PInit', 'PReseed') and e.get('res') == 0)
    nok = sum(1 for ex in execs for e in ex if e.get('e') in ('PInit', 'PReseed') and e.get('res') != 0)
    chk.cov['failed_seedings_observed'] = nfail
    chk.cov['successful_seedings_observed'] = nok
    if nfail < 5 or nok < 5:
        raise MachineryError("vacuous: the fault patterns did not produce both failed and successful seedings")
    chk._distinct.update(str(p) for p in pats)
    chk.sample([trim(e, 6) for e in execs[5][:6]])
    chk.finish(
        rule="every pattern of {full, short(1/16/31 bytes), none} over up to 4 (thorough 6) successive entropy requests - init, "
             "automatic reseeds (limit lowered to one block) and explicit reseeds - with NULL/0 and non-empty personalisation; "
             "TLC checks on every event: status non-zero iff 32 bytes delivered, outputs equal the Hash_DRBG machine with the "
             "delivered bytes mixed in (a failed delivery leaves the generator usable), no block repeats; a crash is a Fault "
             "event without a matching action; NULL callback, plain init and an explicit callback are run against the same "
             "scripted OS source (getrandom interposed at link time) and must all equal the specification",
        assumptions=["short deliveries write exactly the reported number of bytes",
                     "the built-in system source is exercised through link-time interposition of getrandom()"])
