#!/bin/bash
# usage: run_all.sh quick|thorough [ids...]  - runs the checks one after the other and prints a summary line each
tier=${1:-quick}; shift
ids=${@:-C01 C02 C03 C04 C05 C06 C07 C08 C09 C10 C11 C12 C13 C14 C15 C16 C17 C18 C19 C20}
cd "$(dirname "$0")/.."
for c in $ids; do
  s=$(date +%s); out=$(tools/check $c $tier 2>&1); rc=$?
  echo "$c $tier rc=$rc $(( $(date +%s)-s ))s $(echo "$out" | tail -1 | cut -c1-160)"
  [ $rc != 0 ] && echo "$out" | grep -E "VIOLATION|violation:|MACHINERY" | head -5
done
