"""Translate the assembly back ends into TLA+ constants and have TLC execute them in the ISA models (C05 part 2).

  preprocess(file, target)   run the C preprocessor with the target's predefined macros (so the file's own
                             #if defined(TINYJAMBU_BACKEND_*) guard and ABI #ifdefs are resolved as on the target)
  translate_*                instruction text -> IR records (one per instruction) for spec/isa/Mach32.tla / MachAvr.tla
  run_all                    every (file, target) pair, rounds x inputs, one TLC process per program
"""
import os, re, json, subprocess, shutil
from concurrent.futures import ThreadPoolExecutor
from tjv import *

TARGETS = {
    # name: (file suffix, cpp macros, syntax, abi)
    'armv6':     ('armv6',    '-D__ARM_ARCH=6', 'arm', 'aapcs'),
    'armv6m':    ('armv6m',   '-D__ARM_ARCH_ISA_THUMB=1 -D__ARM_ARCH=6 -D__ARM_ARCH_6M__=1', 'arm', 'aapcs'),
    'armv7m':    ('armv7m',   '-D__ARM_ARCH_ISA_THUMB=2 -D__ARM_ARCH=7', 'arm', 'aapcs'),
    'armv8m':    ('armv7m',   '-D__ARM_ARCH_ISA_THUMB=2 -D__ARM_ARCH=8 -D__ARM_ARCH_8M__=1', 'arm', 'aapcs'),
    'riscv32e':  ('riscv32e', '-D__riscv=1 -D__riscv_xlen=32 -D__riscv_32e=1', 'riscv', 'rv32e'),
    'riscv32i':  ('riscv32i', '-D__riscv=1 -D__riscv_xlen=32', 'riscv', 'rv32'),
    'riscv64i':  ('riscv64i', '-D__riscv=1 -D__riscv_xlen=64', 'riscv', 'rv64'),
    'xtensa-call0':    ('xtensa', '-D__XTENSA__=1', 'xtensa', 'call0'),
    'xtensa-windowed': ('xtensa', '-D__XTENSA__=1 -D__XTENSA_WINDOWED_ABI__=1', 'xtensa', 'windowed'),
    'avr5':      ('avr5',     '-D__AVR__=1 -D__AVR_ARCH__=5', 'avr', 'avr'),
}
ALL_SUFFIXES = ['avr5', 'armv6', 'armv6m', 'armv7m', 'riscv32e', 'riscv32i', 'riscv64i', 'xtensa']


class Untranslatable(Exception):
    pass


def preprocess(path, macros, shim):
    rc, out = sh(f"gcc -E -P -undef -x assembler-with-cpp {macros} -I{shim} -I{os.path.dirname(path)} -I{REPO}/src/backend {path}", timeout=60)
    if rc != 0:
        raise MachineryError(f"cannot preprocess {path}: {out[-500:]}")
    return out


def clean_lines(text):
    out = []
    for ln in text.splitlines():
        ln = re.sub(r'(//|@ |;).*$', '', ln) if False else ln
        ln = ln.split('//')[0].strip()
        if ln:
            out.append(ln)
    return out


BLANK = dict(op='', f='', d=0, a=0, b=0, imm=0, sk=0, sa=0, setf=0, w=1, sx=0, w32=0, cond='', t=0, list=[])


def ins(**kw):
    r = dict(BLANK)
    r.update(kw)
    return r


def split_fn(lines, fname):
    """instructions of function fname: from its label to the next .size / next global function"""
    body, on = [], False
    for ln in lines:
        if re.match(rf'{fname}\s*:', ln):
            on = True
            rest = ln.split(':', 1)[1].strip()
            if rest:
                body.append(rest)
            continue
        if on:
            if ln.startswith('.size') or re.match(r'tinyjambu_permutation_\d+\s*:', ln):
                break
            body.append(ln)
    return body


def resolve(items):
    """items: list of ('label', name) / ('ins', record, target-label or None); numeric labels may repeat (1b/1f)"""
    pcs, labels = [], {}
    idx = 0
    positions = []          # (label, index of next instruction)
    for it in items:
        if it[0] == 'label':
            positions.append((it[1], idx + 1))
        else:
            idx += 1
    prog = []
    idx = 0
    for it in items:
        if it[0] != 'ins':
            continue
        idx += 1
        rec, tgt = it[1], it[2]
        if tgt is not None:
            m = re.fullmatch(r'(\d+)([bf])', tgt)
            if m:
                cands = [p for (l, p) in positions if l == m.group(1)]
                if m.group(2) == 'f':
                    c = [p for p in cands if p > idx]
                    if not c:
                        raise Untranslatable(f"no forward label {tgt}")
                    rec['t'] = min(c)
                else:
                    c = [p for p in cands if p <= idx]
                    if not c:
                        raise Untranslatable(f"no backward label {tgt}")
                    rec['t'] = max(c)
            else:
                c = [p for (l, p) in positions if l == tgt]
                if len(c) != 1:
                    raise Untranslatable(f"label {tgt} not found")
                rec['t'] = c[0]
        prog.append(rec)
    return prog


# ----------------------------------------------------------------------------- ARM
ARM_REG = {**{f'r{i}': i for i in range(16)}, 'sl': 10, 'fp': 11, 'ip': 12, 'sp': 13, 'lr': 14, 'pc': 15}


def arm_imm(s):
    return int(s.strip().lstrip('#'), 0)


def translate_arm(body):
    items = []
    for ln in body:
        if re.match(r'[.\w$]+:$', ln):
            items.append(('label', ln[:-1]))
            continue
        if ln.startswith('.'):
            continue
        m = re.match(r'(\w+)\s*(.*)$', ln)
        op, rest = m.group(1).lower(), m.group(2).strip()
        ops = [x.strip() for x in re.split(r',\s*(?![^\[{]*[\]}])', rest)] if rest else []
        R = lambda s: ARM_REG[s.lower()]
        if op in ('push', 'pop'):
            regs = sorted(R(x) for x in re.findall(r'\w+', rest))
            items.append(('ins', ins(op=op, list=regs), None))
        elif op in ('ldr', 'str'):
            mm = re.match(r'(\w+)\s*,\s*\[\s*(\w+)\s*(?:,\s*#?(-?\w+))?\s*\]$', rest)
            if not mm:
                raise Untranslatable(ln)
            items.append(('ins', ins(op='ld' if op == 'ldr' else 'st', d=R(mm.group(1)), a=R(mm.group(2)), imm=int(mm.group(3) or '0', 0)), None))
        elif op in ('eor', 'eors', 'and', 'ands', 'orr', 'orrs'):
            f = {'eor': 'xor', 'and': 'and', 'orr': 'or'}[op.rstrip('s') if op not in ('eors', 'ands', 'orrs') else op[:-1]]
            setf = 1 if op.endswith('s') and op not in ('eors',) or op == 'eors' else 0
            setf = 1 if op in ('eors', 'ands', 'orrs') else 0
            if len(ops) == 2:
                d, a, b, sh_ = R(ops[0]), R(ops[0]), R(ops[1]), None
            elif len(ops) == 3 and re.match(r'(lsl|lsr)\s', ops[2], re.I):
                d, a, b, sh_ = R(ops[0]), R(ops[0]), R(ops[1]), ops[2]
            elif len(ops) == 3:
                d, a, b, sh_ = R(ops[0]), R(ops[1]), R(ops[2]), None
            elif len(ops) == 4:
                d, a, b, sh_ = R(ops[0]), R(ops[1]), R(ops[2]), ops[3]
            else:
                raise Untranslatable(ln)
            sk, sa = 0, 0
            if sh_:
                mm = re.match(r'(lsl|lsr)\s+#?(\d+)$', sh_, re.I)
                if not mm:
                    raise Untranslatable(ln)
                sk, sa = (1 if mm.group(1).lower() == 'lsl' else 2), int(mm.group(2))
            items.append(('ins', ins(op='alu', f=f, d=d, a=a, b=b, sk=sk, sa=sa, setf=setf), None))
        elif op in ('lsl', 'lsls', 'lsr', 'lsrs'):
            if len(ops) != 3 or not ops[2].startswith('#'):
                raise Untranslatable(ln)
            items.append(('ins', ins(op='shi', f='shl' if op.startswith('lsl') else 'shr', d=R(ops[0]), a=R(ops[1]), imm=arm_imm(ops[2]),
                                     setf=1 if op.endswith('s') else 0), None))
        elif op in ('mov', 'movs'):
            if ops[1].startswith('#'):
                raise Untranslatable(ln)
            items.append(('ins', ins(op='alu', f='mov', d=R(ops[0]), a=R(ops[0]), b=R(ops[1]), setf=1 if op == 'movs' else 0), None))
        elif op in ('subs', 'sub', 'adds', 'add'):
            if len(ops) == 2:
                ops = [ops[0], ops[0], ops[1]]
            if not ops[2].startswith('#'):
                raise Untranslatable(ln)
            k = arm_imm(ops[2])
            items.append(('ins', ins(op='addi', d=R(ops[0]), a=R(ops[1]), imm=-k if op.startswith('sub') else k, setf=1 if op.endswith('s') else 0), None))
        elif op in ('bne', 'beq', 'b'):
            items.append(('ins', ins(op='br', cond={'bne': 'nz', 'beq': 'z', 'b': 'always'}[op]), ops[0]))
        elif op == 'bx':
            items.append(('ins', ins(op='ret', a=R(ops[0])), None))
        else:
            raise Untranslatable(ln)
    meta = dict(xl=2, nregs=16, sp=13, ra=14, arg0=0, arg1=1, zero=99, pcreg=15, saved=[4, 5, 6, 7, 8, 9, 10, 11], abi='aapcs')
    return resolve(items), meta


# ----------------------------------------------------------------------------- RISC-V
RV_NAMES = ['zero', 'ra', 'sp', 'gp', 'tp', 't0', 't1', 't2', 's0', 's1', 'a0', 'a1', 'a2', 'a3', 'a4', 'a5', 'a6', 'a7',
            's2', 's3', 's4', 's5', 's6', 's7', 's8', 's9', 's10', 's11', 't3', 't4', 't5', 't6']
RV_REG = {n: i for i, n in enumerate(RV_NAMES)}
RV_REG.update({f'x{i}': i for i in range(32)})
RV_REG['fp'] = 8


def translate_riscv(body, abi):
    items = []
    xl = 4 if abi == 'rv64' else 2
    R = lambda s: RV_REG[s.lower()]
    for ln in body:
        if re.match(r'[.\w$]+:$', ln):
            items.append(('label', ln[:-1]))
            continue
        if ln.startswith('.'):
            continue
        m = re.match(r'([\w.]+)\s*(.*)$', ln)
        op, rest = m.group(1).lower(), m.group(2).strip()
        ops = [x.strip() for x in rest.split(',')] if rest else []
        if op in ('lw', 'sw', 'ld', 'sd', 'lwu'):
            mm = re.match(r'(-?\w*)\((\w+)\)$', ops[1])
            if not mm:
                raise Untranslatable(ln)
            if op in ('ld', 'sd') and xl != 4:
                raise Untranslatable(ln)
            items.append(('ins', ins(op='ld' if op in ('lw', 'ld', 'lwu') else 'st', d=R(ops[0]), a=R(mm.group(2)), imm=int(mm.group(1) or '0', 0),
                                     w=2 if op in ('ld', 'sd') else 1, sx=1 if op == 'lw' else 0), None))
        elif op in ('xor', 'and', 'or'):
            items.append(('ins', ins(op='alu', f=op, d=R(ops[0]), a=R(ops[1]), b=R(ops[2])), None))
        elif op in ('mv',):
            items.append(('ins', ins(op='alu', f='mov', d=R(ops[0]), a=R(ops[0]), b=R(ops[1])), None))
        elif op in ('srli', 'slli', 'srliw', 'slliw'):
            w32 = 1 if op.endswith('w') else 0
            if w32 and xl != 4:
                raise Untranslatable(ln)
            items.append(('ins', ins(op='shi', f='shl' if op.startswith('sll') else 'shr', d=R(ops[0]), a=R(ops[1]), imm=int(ops[2], 0), w32=w32), None))
        elif op == 'addi':
            items.append(('ins', ins(op='addi', d=R(ops[0]), a=R(ops[1]), imm=int(ops[2], 0)), None))
        elif op in ('bne', 'beq'):
            if R(ops[1]) != 0 and R(ops[0]) != 0:
                raise Untranslatable(ln)
            reg = R(ops[0]) if R(ops[1]) == 0 else R(ops[1])
            items.append(('ins', ins(op='br', cond='regnz' if op == 'bne' else 'regz', a=reg), ops[2]))
        elif op in ('bnez', 'beqz'):
            items.append(('ins', ins(op='br', cond='regnz' if op == 'bnez' else 'regz', a=R(ops[0])), ops[1]))
        elif op == 'j':
            items.append(('ins', ins(op='br', cond='always'), ops[0]))
        elif op == 'ret':
            items.append(('ins', ins(op='ret', a=1), None))
        else:
            raise Untranslatable(ln)
    saved = [8, 9] if abi == 'rv32e' else [8, 9] + list(range(18, 28))
    meta = dict(xl=xl, nregs=16 if abi == 'rv32e' else 32, sp=2, ra=1, arg0=10, arg1=11, zero=0, pcreg=99, saved=saved, abi=abi)
    if abi == 'rv32e':
        for it in items:
            if it[0] == 'ins':
                for fld in ('d', 'a', 'b'):
                    if it[1][fld] > 15:
                        raise Untranslatable("RV32E has only x0..x15")
    return resolve(items), meta


# ----------------------------------------------------------------------------- Xtensa
def translate_xtensa(body, abi):
    items = []

    def R(s):
        s = s.lower()
        if s == 'sp':
            return 1
        m = re.fullmatch(r'a(\d+)', s)
        if not m or int(m.group(1)) > 15:
            raise Untranslatable(s)
        return int(m.group(1))
    frame = 0
    for ln in body:
        if re.match(r'[.\w$]+:$', ln):
            items.append(('label', ln[:-1]))
            continue
        if ln.startswith('.'):
            continue
        m = re.match(r'([\w.]+)\s*(.*)$', ln)
        op, rest = m.group(1).lower(), m.group(2).strip()
        ops = [x.strip() for x in rest.split(',')] if rest else []
        if op in ('l32i', 'l32i.n', 's32i', 's32i.n'):
            items.append(('ins', ins(op='ld' if op.startswith('l') else 'st', d=R(ops[0]), a=R(ops[1]), imm=int(ops[2], 0)), None))
        elif op in ('xor', 'and', 'or'):
            items.append(('ins', ins(op='alu', f=op, d=R(ops[0]), a=R(ops[1]), b=R(ops[2])), None))
        elif op in ('mov', 'mov.n'):
            items.append(('ins', ins(op='alu', f='mov', d=R(ops[0]), a=R(ops[0]), b=R(ops[1])), None))
        elif op == 'ssai':
            items.append(('ins', ins(op='ssai', imm=int(ops[0], 0)), None))
        elif op == 'src':
            items.append(('ins', ins(op='src', d=R(ops[0]), a=R(ops[1]), b=R(ops[2])), None))
        elif op in ('addi', 'addi.n'):
            items.append(('ins', ins(op='addi', d=R(ops[0]), a=R(ops[1]), imm=int(ops[2], 0)), None))
        elif op in ('bnei', 'beqi'):
            items.append(('ins', ins(op='br', cond='nei' if op == 'bnei' else 'eqi', a=R(ops[0]), imm=int(ops[1], 0)), ops[2]))
        elif op in ('bnez', 'beqz', 'bnez.n', 'beqz.n'):
            items.append(('ins', ins(op='br', cond='regnz' if op.startswith('bnez') else 'regz', a=R(ops[0])), ops[1]))
        elif op in ('j',):
            items.append(('ins', ins(op='br', cond='always'), ops[0]))
        elif op == 'entry':
            if abi != 'windowed':
                raise Untranslatable("entry in a CALL0 build")
            frame = int(ops[1], 0)
            items.append(('ins', ins(op='entry', imm=frame), None))
        elif op in ('retw', 'retw.n'):
            if abi != 'windowed':
                raise Untranslatable("retw in a CALL0 build")
            items.append(('ins', ins(op='ret', a=16, imm=frame), None))
        elif op in ('ret', 'ret.n'):
            if abi != 'call0':
                raise Untranslatable("ret in a windowed build")
            items.append(('ins', ins(op='ret', a=0), None))
        else:
            raise Untranslatable(ln)
    meta = dict(xl=2, nregs=16, sp=1, ra=0, arg0=2, arg1=3, zero=99, pcreg=99, saved=[12, 13, 14, 15] if abi == 'call0' else [],
                abi='windowed' if abi == 'windowed' else 'call0')
    return resolve(items), meta


# ----------------------------------------------------------------------------- AVR
def translate_avr(body):
    items = []

    def R(s):
        m = re.fullmatch(r'r(\d+)', s.lower())
        if not m or int(m.group(1)) > 31:
            raise Untranslatable(s)
        return int(m.group(1))
    PTR = {'x': 26, 'y': 28, 'z': 30}
    for ln in body:
        mlab = re.match(r'([.\w$]+):\s*(.*)$', ln)
        if mlab:
            items.append(('label', mlab.group(1)))
            ln = mlab.group(2).strip()
            if not ln:
                continue
        if ln.startswith('.'):
            continue
        m = re.match(r'(\w+)\s*(.*)$', ln)
        op, rest = m.group(1).lower(), m.group(2).strip()
        ops = [x.strip() for x in rest.split(',')] if rest else []
        if op in ('push', 'pop', 'lsl', 'lsr', 'rol', 'ror', 'dec', 'inc', 'com', 'clr'):
            items.append(('ins', ins(op=op, d=R(ops[0])), None))
        elif op in ('mov', 'eor', 'and', 'or', 'movw'):
            items.append(('ins', ins(op=op, d=R(ops[0]), a=R(ops[1])), None))
        elif op in ('ld', 'ldd'):
            mm = re.fullmatch(r'([xyz])(?:\+(\d+))?', ops[1].lower())
            if not mm:
                raise Untranslatable(ln)
            items.append(('ins', ins(op='ldp', d=R(ops[0]), a=PTR[mm.group(1)], imm=int(mm.group(2) or 0)), None))
        elif op in ('st', 'std'):
            mm = re.fullmatch(r'([xyz])(?:\+(\d+))?', ops[0].lower())
            if not mm:
                raise Untranslatable(ln)
            items.append(('ins', ins(op='stp', d=R(ops[1]), a=PTR[mm.group(1)], imm=int(mm.group(2) or 0)), None))
        elif op in ('breq', 'brne', 'rjmp', 'jmp'):
            items.append(('ins', ins(op='br', cond={'breq': 'z', 'brne': 'nz', 'rjmp': 'always', 'jmp': 'always'}[op]), ops[0]))
        elif op == 'ret':
            items.append(('ins', ins(op='ret'), None))
        else:
            raise Untranslatable(ln)
    meta = dict(xl=1, nregs=32, sp=99, ra=99, arg0=24, arg1=22, zero=99, pcreg=99,
                saved=list(range(2, 18)) + [28, 29], abi='avr')
    return resolve(items), meta


def translate(text, syntax, abi, fname):
    body = split_fn(clean_lines(text), fname)
    if not body:
        raise Untranslatable(f"function {fname} not found")
    if syntax == 'arm':
        return translate_arm(body)
    if syntax == 'riscv':
        return translate_riscv(body, abi)
    if syntax == 'xtensa':
        return translate_xtensa(body, abi)
    return translate_avr(body)


# ----------------------------------------------------------------------------- running
def isa_tests(r, v, thorough):
    kb = v // 8

    def unit(n, i):
        b = bytearray(n); b[i // 8] |= 1 << (i % 8); return bytes(b)
    rounds = [1, 2, 3, 5, 8, 9, 10, 20] if not thorough else list(range(1, 25))
    base = [(r.bytes(16), r.bytes(kb)), (b'\xff' * 16, b'\xff' * kb), (r.bytes(16, 'h'), r.bytes(kb, 'h')), (unit(16, 70), unit(kb, 8 * kb - 1))]
    if thorough:
        base += [(r.bytes(16), r.bytes(kb)) for _ in range(20)] + [(bytes(16), bytes(kb)), (unit(16, 127), unit(kb, 0)), (unit(16, 85), bytes(kb)),
                                                                   (unit(16, 0), unit(kb, 32)), (unit(16, 47), unit(kb, 64)), (unit(16, 91), unit(kb, 96))]
    tests = []
    for ri, rd in enumerate(rounds):
        for (s, k) in (base if thorough else base[:3] + [base[3]] if ri % 2 == 0 else base[:2]):
            tests.append(dict(s=list(s), k=list(k), rounds=rd))
    return tests


def run_program(chk, sd, tag, prog, meta, tests, module):
    pd = os.path.join(chk.wd, 'isa-' + tag)
    os.makedirs(pd, exist_ok=True)
    with open(os.path.join(pd, 'prog.ndjson'), 'w') as f:
        for p in prog:
            f.write(json.dumps(p) + '\n')
    with open(os.path.join(pd, 'tests.ndjson'), 'w') as f:
        for t in tests:
            f.write(json.dumps(t) + '\n')
    with open(os.path.join(pd, 'meta.ndjson'), 'w') as f:
        f.write(json.dumps(meta) + '\n')
    env = dict(PROG=os.path.join(pd, 'prog.ndjson'), TESTS=os.path.join(pd, 'tests.ndjson'), META=os.path.join(pd, 'meta.ndjson'))
    rc, out = tlc_run(chk.wd, module, cfg=module, env=env, workers=1, timeout=420 if module.startswith('Sym') else 3000, xmx='4g')
    r = parse_tlc(out)
    fails = []
    for line in out.splitlines():
        line = line.strip()
        if line.startswith('"{') and 'isafail' in line:
            try:
                fails.append(json.loads(json.loads(line)))
            except Exception:
                fails.append({"isafail": line[:200], "test": -1, "pc": -1})
    return r, fails, out


def flatten_isa(chk):
    """the ISA modules live in spec/isa; TLC wants them next to the modules they extend"""
    sd = spec_copy(chk.wd)
    for f in os.listdir(os.path.join(sd, 'isa')):
        shutil.copy(os.path.join(sd, 'isa', f), os.path.join(sd, f))
    return sd


def run_all(chk, r, generated):
    sd = flatten_isa(chk)
    shim = os.path.join(VERIF, 'harness', 'shim-avr')
    jobs = []
    selection_problems = []
    programs = 0
    for tname, (suffix, macros, syntax, abi) in TARGETS.items():
        # backend selection: with this target's predefined macros exactly one back end of each size is non-empty
        for v in (128, 192, 256):
            nonempty = []
            for sfx in ALL_SUFFIXES:
                p = os.path.join(REPO, 'src', 'backend', f'tinyjambu-{v}-asm-{sfx}.S')
                if os.path.exists(p) and 'tinyjambu_permutation' in preprocess(p, macros, shim):
                    nonempty.append(sfx)
            rc, cout = sh(f"gcc -E -P -undef {macros} -I{REPO}/src/backend -I{REPO}/src {REPO}/src/backend/tinyjambu-{v}-c32.c 2>/dev/null | grep -c tinyjambu_permutation")
            if cout.strip() not in ('', '0'):
                nonempty.append('c32')
            if nonempty != [suffix]:
                selection_problems.append((tname, v, nonempty))
        for v in (128, 192, 256):
            srcs = [('repo', os.path.join(REPO, 'src', 'backend', f'tinyjambu-{v}-asm-{suffix}.S'))]
            gp = [g for g in generated if os.path.basename(g) == f'tinyjambu-{v}-asm-{suffix}.S']
            if gp and open(gp[0]).read() != open(srcs[0][1]).read():
                srcs.append(('generator', gp[0]))      # generator output differs from the checked-in file: judge it too
            for origin, path in srcs:
                if tname == 'armv8m' and not chk.thorough:
                    continue                                # same file as armv7m; selection is checked above
                text = preprocess(path, macros, shim)
                try:
                    prog, meta = translate(text, syntax, abi, f'tinyjambu_permutation_{v}')
                except Untranslatable as e:
                    raise MachineryError(f"{os.path.basename(path)} ({tname}): instruction outside the modelled subset: {e}")
                if tname == 'armv6m':
                    meta = dict(meta, enc='thumb1')         # every instruction must have a 16-bit Thumb encoding
                jobs.append((f"{tname}-{v}-{origin}", prog, meta, isa_tests(r, v, chk.thorough), 'MachAvr' if syntax == 'avr' else 'Mach32',
                             os.path.basename(path), tname))
                # the same program run once symbolically: every round of the loop body, for all states and keys
                smeta = dict(meta, keybits=v, symrounds={128: 2, 192: 4, 256: 3}[v])
                jobs.append((f"sym-{tname}-{v}-{origin}", prog, smeta, [dict(s=[0], k=[0], rounds=1)],
                             'SymAvr' if syntax == 'avr' else 'Sym32', os.path.basename(path), tname))
    for (tname, v, ne) in selection_problems:
        chk.violation(f"backend selection: target {tname} size {v} selects {ne} instead of exactly one assembly back end",
                      dict(kind='backend-select', target=tname, size=v, nonempty=ne))

    def one(job):
        tag, prog, meta, tests, module, fname, tname = job
        rr, fails, out = run_program(chk, sd, tag, prog, meta, tests, module)
        return job, rr, fails, out
    with ThreadPoolExecutor(NCPU) as ex:
        results = list(ex.map(one, jobs))
    per = []
    symbolic_ok, symbolic_inconclusive = [], []
    for (tag, prog, meta, tests, module, fname, tname), rr, fails, out in results:
        if module.startswith('Sym'):
            if 'TIMEOUT' in out or any(f.get('isafail') == 'symbolic budget exceeded' for f in fails) and len(fails) == 1:
                symbolic_inconclusive.append(tag)       # not a verdict: the concrete runs of the same program decide
                continue
            if not fails and rr['ok']:
                symbolic_ok.append(tag)
            fails = [f for f in fails if f.get('isafail') != 'symbolic budget exceeded']
        if not rr['distinct'] or (not fails and not rr['ok']):
            raise MachineryError(f"ISA model run failed for {tag}:\n{out[-1500:]}")
        chk.cov['states'] += rr['distinct']
        chk.cov['transitions'] += rr['generated']
        programs += 1
        chk._distinct.add('isa:' + tag)
        per.append(dict(program=tag, file=fname, instructions=len(prog), tests=len(tests), instruction_steps=rr['distinct'], failures=len(fails)))
        seen = set()
        for f in fails:
            key = f.get('isafail')
            if key in seen:
                continue
            seen.add(key)
            t = tests[f['test'] - 1] if 0 < f.get('test', 0) <= len(tests) else None
            chk.violation(f"{fname} as {tname}: {f.get('isafail')} (test {f.get('test')}, instruction {f.get('pc')}: "
                          f"{json.dumps(prog[f['pc'] - 1]) if 0 < f.get('pc', 0) <= len(prog) else '?'})",
                          dict(kind='isa', program=tag, file=fname, target=tname, failure=f, test=t))
    chk.cov['programs'] = programs
    chk.cov['isa_programs'] = per
    chk.cov['symbolic_universal_runs_ok'] = symbolic_ok
    chk.cov['symbolic_inconclusive'] = symbolic_inconclusive
    chk.log(f"symbolic (all states, all keys, every round of the loop body): {len(symbolic_ok)} programs verified, "
            f"{len(symbolic_inconclusive)} inconclusive")
    chk.cov['evaluations'] += sum(p['tests'] for p in per)
    chk.log(f"ISA models: {programs} programs executed by TLC, {sum(p['instruction_steps'] for p in per)} instruction steps, "
            f"{sum(p['failures'] for p in per)} failures")
