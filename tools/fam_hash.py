"""Checks for the hash family: C10 hash, C11 streaming, C12 HMAC, C13 HKDF, C14 PBKDF2."""
import os, json, gzip, re
from tjv import *
from fam_cipher import chunks, anchors


def hcost(ev):
    """approximate number of compression calls TLC performs for an event"""
    e = ev.get('e')
    if e == 'Hash':
        return 0.05 if ev.get('learn') else len(ev.get('m', [])) // 16 + 1
    if e == 'HUpdate':
        return 0.05 if ev.get('op') else len(ev.get('d', [])) / 16 + 0.1
    if e == 'HFinal':
        return 0.05 if ev.get('op') else 1
    if e in ('Hmac',):
        kl = len(ev['k'])
        return 12 + len(ev['m']) // 16 + (kl // 16 + 1 if kl > 64 else 0)
    if e in ('HmInit', 'HmReinit'):
        return 8 + (len(ev['k']) // 16 + 1 if len(ev['k']) > 64 else 0)
    if e == 'HmUpdate':
        return len(ev.get('d', [])) / 16 + 0.1
    if e == 'HmFinal':
        return 12
    if e == 'Hkdf':
        return 24 + ((ev['len'] + 31) // 32) * (9 + len(ev['info']) // 16) + len(ev['key']) // 16
    if e == 'HkdfBlock':
        return 10 + len(ev['info']) // 16
    if e == 'HkExtract':
        return 16 + len(ev['key']) // 16
    if e == 'HkExpand':
        return 8 + ((ev['len'] + 31) // 32) * (9 + len(ev['info']) // 16)
    if e == 'Pbkdf2':
        return 8 + ((ev['len'] + 31) // 32) * max(1, ev['count']) * 8
    if e == 'PbBlock':
        return 8 + max(1, ev['count']) * 8
    if e == 'PbLink':
        return 9
    if e == 'PbXor':
        return 0.2 + len(ev['us']) / 50.0
    return 0.05


def anchor_hash(chk, per_file):
    execs = []
    for n in ('TinyJAMBU-HASH', 'TinyJAMBU-HMAC'):
        evs = anchors(n)
        for e in evs:
            e['learn'] = 0
        if per_file and per_file < len(evs):
            r = Rng(chk.seed ^ 0x4A5)
            keep = set(r.sample(range(len(evs)), per_file)) | {0, 1, 15, 16, 17, 32, 33}
            evs = [e for i, e in enumerate(evs) if i in keep]
        for i in range(0, len(evs), 8):
            execs.append([{"e": "Reset", "id": f"anchor-{n}-{i}"}] + evs[i:i + 8])
    res = validate(chk.wd, 'TV_Hash', execs, cost=hcost)
    if res['errors'] or res['mismatches']:
        raise MachineryError("oracle anchoring against the hash/HMAC reference vectors failed: " +
                             json.dumps([m[2] for m in res['mismatches']][:2])[:800] + ' '.join(res['errors'])[:1500])
    chk.cov['states'] += res['states']
    chk.cov['transitions'] += res['transitions']
    chk.cov['oracle_anchor_vectors'] = chk.cov.get('oracle_anchor_vectors', 0) + res['events']
    chk.log(f"oracle anchored on {res['events']} reference vectors (TinyJAMBU-HASH, TinyJAMBU-HMAC)")


def run_exec_groups(exe, groups, timeout=1200):
    lines = []
    for gi, g in enumerate(groups):
        lines.append(f"reset id=x{gi}")
        lines.extend(g)
    events, err = run_driver(exe, lines, timeout=timeout)
    return split_executions(events)


def annotate(execs, groups):
    """copy judging-mode annotations (op=, learn=) from plan lines onto the recorded events"""
    for ex, g in zip(execs, groups):
        ann = {}
        for ln in g:
            m = re.search(r'\bid=(\S+)', ln)
            if not m:
                continue
            a = {}
            for key in ('op', 'learn'):
                mm = re.search(rf'\b{key}=(\d)', ln)
                if mm:
                    a[key] = int(mm.group(1))
            ann[m.group(1)] = a
        for ev in ex:
            if ev.get('e') in ('Hash',):
                ev['learn'] = ann.get(ev.get('id'), {}).get('learn', 0)
            if ev.get('e') in ('HUpdate', 'HFinal'):
                ev['op'] = ann.get(ev.get('id'), {}).get('op', 0)


def split_long(execs):
    """re-express long one-shot outputs as chains of per-block events (exact, see DESIGN.md C13/C14)"""
    out = []
    for ex in execs:
        cur = [ex[0]] if ex and ex[0].get('e') == 'Reset' else []
        body = ex[1:] if cur else ex
        for ev in body:
            if ev.get('e') == 'Hkdf' and ev.get('res') == 0 and ev['len'] > 96 and 'out' in ev:
                o = ev['out']
                heads = dict(e='HkdfHead', id=ev['id'], len=ev['len'], res=ev['res'], outlen=len(o), canary=ev['canary'],
                             untouched=ev['untouched'])
                cur.append(heads)
                blocks = []
                for i in range((len(o) + 31) // 32):
                    blocks.append(dict(e='HkdfBlock', id=f"{ev['id']}#b{i + 1}", key=ev['key'], salt=ev['salt'], info=ev['info'],
                                       i=i + 1, prev=o[32 * (i - 1):32 * i] if i else [], cur=o[32 * i:32 * i + 32]))
                for j in range(0, len(blocks), 16):
                    out.append([{"e": "Reset", "id": f"{ev['id']}#r{j}"}] + blocks[j:j + 16])
            elif ev.get('e') == 'Hkdf' and 'out' not in ev:
                cur.append(dict(e='HkdfHead', id=ev['id'], len=min(ev['len'], 1 << 24), res=ev['res'], outlen=ev.get('outlen', 0),
                                canary=ev['canary'], untouched=ev['untouched']))
            elif ev.get('e') == 'Pbkdf2' and ev['len'] > 96:
                o = ev['out']
                cur.append(dict(e='PbHead', id=ev['id'], len=ev['len'], outlen=len(o), canary=ev['canary']))
                blocks = [dict(e='PbBlock', id=f"{ev['id']}#b{i + 1}", pw=ev['pw'], salt=ev['salt'], count=ev['count'], i=i + 1,
                               cur=o[32 * i:32 * i + 32]) for i in range((len(o) + 31) // 32)]
                per = max(1, 64 // max(1, ev['count']))
                for j in range(0, len(blocks), per):
                    out.append([{"e": "Reset", "id": f"{ev['id']}#r{j}"}] + blocks[j:j + per])
            else:
                cur.append(ev)
        out.append(cur)
    return out


def split_incremental(ex):
    """A long extract/expand history with one info string, re-expressed as per-call control events plus per-block
    data events over the concatenated stream (exact by induction; see DESIGN.md C13). Returns list of executions."""
    body = [e for e in ex if e.get('e') != 'Reset']
    if not body or body[0].get('e') != 'HkExtract':
        return [ex]
    exps = [e for e in body if e.get('e') == 'HkExpand']
    if sum(e['len'] for e in exps) < 600 or len({json.dumps(e['info']) for e in exps}) != 1:
        return [ex]
    if any(e.get('e') not in ('HkExtract', 'HkExpand', 'HkFree') for e in body) or \
            any(e.get('e') == 'HkExtract' for e in body[1:]):
        return [ex]
    x0 = body[0]
    ctl, stream, total = [ex[0], dict(x0)], [], 0
    for e in body[1:]:
        if e.get('e') == 'HkFree':
            ctl.append(e)
            continue
        o = e['out']
        keep = max(0, min(len(o), 8160 - total))
        stream.extend(o[:keep])
        ctl.append(dict(e='HkExpandCtl', id=e['id'], obj=e['obj'], len=e['len'], res=e['res'], outlen=len(o),
                        tailnz=sum(1 for b in o[keep:] if b), canary=e['canary'], ocanary=e['ocanary']))
        total += e['len']
    blocks = [dict(e='HkdfBlock', id=f"{x0['id']}#b{i + 1}", key=x0['key'], salt=x0['salt'], info=exps[0]['info'], i=i + 1,
                   prev=stream[32 * (i - 1):32 * i] if i else [], cur=stream[32 * i:32 * i + 32])
              for i in range((len(stream) + 31) // 32)]
    out = [ctl]
    for j in range(0, len(blocks), 16):
        out.append([{"e": "Reset", "id": f"{x0['id']}#r{j}"}] + blocks[j:j + 16])
    return out


def split_chain(execs, chk):
    """PBKDF2 events that carry the interposed PRF chain are re-expressed as PbLink / PbXor events (DESIGN.md 5.4).
    If the chain does not have the expected shape (a refactoring may change the nested calls) the event is left for
    interpreted validation when that is affordable, and otherwise only recorded as not validated."""
    out = []
    for ex in execs:
        cur = [e for e in ex if not (e.get('e') == 'Pbkdf2' and 'chain' in e)]
        out.append(cur)
        for ev in ex:
            if ev.get('e') != 'Pbkdf2' or 'chain' not in ev:
                continue
            c = max(1, ev['count'])
            nb = (ev['len'] + 31) // 32
            ch = ev.pop('chain')
            if len(ch) != c * nb:
                if c * nb <= 300:
                    cur.append(ev)
                else:
                    chk.cov.setdefault('pbkdf2_not_validated', []).append(ev['id'])
                continue
            cur.append(dict(e='PbHead', id=ev['id'], len=ev['len'], outlen=len(ev['out']), canary=ev['canary']))
            links = []
            for b in range(nb):
                us = ch[b * c:(b + 1) * c]
                for j, u in enumerate(us):
                    links.append(dict(e='PbLink', id=f"{ev['id']}#b{b + 1}u{j + 1}", pw=ev['pw'], salt=ev['salt'], i=b + 1, j=j + 1,
                                      prev=us[j - 1] if j else [], cur=u))
                links.append(dict(e='PbXor', id=f"{ev['id']}#b{b + 1}x", us=us, count=ev['count'], cur=ev['out'][32 * b:32 * b + 32]))
            for k in range(0, len(links), 48):
                out.append([{"e": "Reset", "id": f"{ev['id']}#r{k}"}] + links[k:k + 48])
    return out


def relational_kdf(chk, exe, r, kind):
    """Dense sweeps judged relationally against one long reference output that is itself validated block by block.
    kind 'hkdf': every one-shot length 0..640 is a prefix of the reference; random partitions of up to 700 bytes (and
    partitions crossing 8160) into expand calls return consecutive slices of it.  kind 'pbkdf2': every length 0..200."""
    execs = []
    if kind == 'hkdf':
        for pi in range(2 if not chk.thorough else 5):
            key, salt, info = r.bytes(5 + 30 * pi), r.bytes([0, 20, 64, 65, 100][pi]), r.bytes([0, 3, 129, 200, 17][pi])
            base = f"key={hx(key)} salt={hx(salt) if salt else 'null'} info={hx(info)}"
            lines = [f"hkdf id=ref{pi} len=8160 {base}"] + [f"hkdf id=pre{pi}-{n} len={n} {base}" for n in range(0, 641)]
            nparts = 60 if not chk.thorough else 200
            parts = []
            for q in range(nparts):
                seq, tot = [], 0
                lim = 700 if q % 6 else 8400
                while tot < lim and len(seq) < 40:
                    n = r.choice([0, 1, 5, 31, 32, 33, 64, 100, 224, 246, 255, 256, 257, 300]) if lim == 700 else r.choice([32, 255, 256, 1000, 2048, 4000, 8129])
                    seq.append(n); tot += n
                parts.append(seq)
                o = q % 8
                lines.append(f"hkextract id=pt{pi}-{q}x obj={o} key={hx(key)} salt={hx(salt) if salt else 'null'}")
                lines += [f"hkexpand id=pt{pi}-{q}e{j} obj={o} info={hx(info)} len={n} off={j % 8}" for j, n in enumerate(seq)]
            ev, _ = run_driver(exe, [f"reset id=rel{pi}"] + lines, timeout=900)
            tag = [pi]
            ex = [ev[0]]
            ref = next((e for e in ev if e.get('id') == f"ref{pi}"), None)
            if ref is None or 'out' not in ref:
                execs.append(ev)
                continue
            ex.append(dict(e='KdfLearn', id=f"ref{pi}", tag=tag, out=ref['out']))
            for e in ev[1:]:
                if e.get('e') == 'Hkdf' and e['id'].startswith('pre'):
                    ex.append(dict(e='KdfPrefix', id=e['id'], tag=tag, len=e['len'], res=e['res'], canary=e['canary'], out=e.get('out', [])))
                elif e.get('e') == 'HkExtract':
                    ex.append(dict(e='KdfExtract', id=e['id'], obj=e['obj'], tag=tag))
                elif e.get('e') == 'HkExpand':
                    ex.append(dict(e='KdfExpand', id=e['id'], obj=e['obj'], len=e['len'], res=e['res'], out=e['out'], canary=e['canary'], ocanary=e['ocanary']))
                elif e.get('e') in ('Fault',):
                    ex.append(e)
            execs.append(ex)
            execs.append([{"e": "Reset", "id": f"refv{pi}"}, dict(ref, id=f"refcheck{pi}")])      # the reference itself, interpreted
        # info of 64 KiB and more (a length kept in 16 bits would wrap): a 96-byte reference, three expands
        for li, il in enumerate([65536 + 5] + ([70000] if chk.thorough else [])):
            key, salt, info = r.bytes(16), r.bytes(8), r.bytes(il)
            reflen, parts = (96, [10, 30, 56]) if chk.thorough else (64, [10, 30, 24])     # interpreting one block costs about a minute
            lines = [f"hkdf id=refL{li} len={reflen} key={hx(key)} salt={hx(salt)} info={hx(info)}",
                     f"hkextract id=ptL{li}x obj=0 key={hx(key)} salt={hx(salt)}"] + \
                    [f"hkexpand id=ptL{li}e{j} obj=0 info={hx(info)} len={n}" for j, n in enumerate(parts)]
            ev, _ = run_driver(exe, [f"reset id=relL{li}"] + lines, timeout=900)
            ref = next((e for e in ev if e.get('id') == f"refL{li}"), None)
            if ref is None or 'out' not in ref:
                execs.append(ev)
                continue
            tag = [50 + li]
            ex = [ev[0], dict(e='KdfLearn', id=f"refL{li}", tag=tag, out=ref['out'])]
            for e in ev[1:]:
                if e.get('e') == 'HkExtract':
                    ex.append(dict(e='KdfExtract', id=e['id'], obj=e['obj'], tag=tag))
                elif e.get('e') == 'HkExpand':
                    ex.append(dict(e='KdfExpand', id=e['id'], obj=e['obj'], len=e['len'], res=e['res'], out=e['out'], canary=e['canary'], ocanary=e['ocanary']))
                elif e.get('e') == 'Fault':
                    ex.append(e)
            execs.append(ex)
            execs.append([{"e": "Reset", "id": f"refvL{li}"}, dict(ref, id=f"refcheckL{li}")])
        chk.cov['relational_hkdf_events'] = sum(len(x) for x in execs)
    else:
        for pi in range(2 if not chk.thorough else 4):
            pw, salt, count = r.bytes([7, 64, 100, 65][pi]), r.bytes([8, 0, 33, 200][pi]), [2, 3, 1, 5][pi]
            base = f"count={count} pw={hx(pw)} salt={hx(salt) if salt else 'null'}"
            lines = [f"pbkdf2 id=ref{pi} len=320 {base}"] + [f"pbkdf2 id=pre{pi}-{n} len={n} {base} off={n % 8}" for n in range(0, 301)]
            ev, _ = run_driver(exe, [f"reset id=rel{pi}"] + lines, timeout=900)
            ref = next((e for e in ev if e.get('id') == f"ref{pi}"), None)
            if ref is None:
                execs.append(ev)
                continue
            ex = [ev[0], dict(e='KdfLearn', id=f"ref{pi}", tag=[100 + pi], out=ref['out'])]
            for e in ev[1:]:
                if e.get('e') == 'Pbkdf2' and e['id'].startswith('pre'):
                    ex.append(dict(e='KdfPrefix', id=e['id'], tag=[100 + pi], len=e['len'], res=0, canary=e['canary'], out=e['out']))
                elif e.get('e') == 'Fault':
                    ex.append(e)
            execs.append(ex)
            execs.append([{"e": "Reset", "id": f"refv{pi}"}, dict(ref, id=f"refcheck{pi}")])
        chk.cov['relational_pbkdf2_events'] = sum(len(x) for x in execs)
    return execs


def judge_h(chk, exe, execs, groups, cost=hcost, nontrivial=None):
    res = validate(chk.wd, 'TV_Hash', execs, cost=cost)
    chk.add_validation('TV_Hash', res, execs, nontrivial=nontrivial)
    seen = set()
    for (xi, ev, mm) in res['mismatches']:
        if xi in seen:
            continue
        seen.add(xi)
        plan = ([f"reset id=x{xi}"] + groups[xi]) if (groups and xi < len(groups) and groups[xi]) else None
        chk.violation(f"event {ev.get('id')} ({ev.get('e')}) is not a behaviour of the specification: expected "
                      f"{json.dumps(trim(mm.get('expected'), 40))[:300]}",
                      dict(trace_spec='TV_Hash', plan=plan, event=trim(ev, 80), expected=trim(mm.get('expected'), 80)))
    return res


def datav(r, n, cls='r'):
    return hx(r.bytes(n, cls))


# ----------------------------------------------------------------------------- C10
def check_C10(chk):
    exe = build_driver(chk.wd, 'prod')
    anchor_hash(chk, 0 if chk.thorough else 40)
    # mode level: MDPH as a machine over permutation calls (two per block), with adversarial answers
    import fam_mode
    fam_mode.mode_stage(chk, 'hash')
    r = Rng(chk.seed ^ 0xC10)
    lens = list(range(0, 81)) + [95, 96, 97, 127, 128, 129, 255, 256, 257, 1023, 1024, 1025]
    if chk.thorough:
        lens += [1026, 1027, 1028, 1029, 1030, 4095, 4096, 4097, 10000, 65536]
    lines = []
    for n in lens:
        classes = ['r', 'h', 'f', 'c'] if n <= 129 else (['r', 'h'] if n <= 1100 else ['r'])
        for ci, cls in enumerate(classes):
            off = (n + ci) % 8
            pl = 'es'[(n + ci) % 2]
            src = f"@{r.randint(1, 2**40)},{n},{cls}" if n > 1500 else (datav(r, n, cls) if n else ('null' if ci % 2 else '-'))
            lines.append(f"hash id=h{n}{cls} m={src} pl={pl} off={off},{(off + 3) % 8} pf={r.choice([0, 255, 165])}")
    # value classes at the end / start of the message (padding-like: 00, runs of 00, 80 00.., all zero) around the block sizes
    for n in (1, 15, 16, 17, 31, 32, 33, 48, 64, 65):
        for cls in 'zet8l':
            lines.append(f"hash id=v{n}{cls} m={datav(r, n, cls)} off={n % 8},{(n + 1) % 8}")
    # in place: the digest replaces the start of the message (the repository's own tests use the one-shot functions this way)
    for n in (0, 1, 16, 31, 32, 33, 64, 100, 257):
        lines.append(f"hash id=ip{n} m={datav(r, n) if n else '-'} inplace=1")
    # chaining values no sampled message reaches (2^-32 per word): injected into the state object, then absorbed / finalized
    FF, ZZ = 'ff' * 4, '00' * 4
    inj = []
    for ji, (Lh, Rh) in enumerate([(r.hex(16), FF + r.hex(12)), (r.hex(16), ZZ + r.hex(12)), (r.hex(16), r.hex(12) + FF), (FF * 4, FF * 4),
                                   (ZZ * 4, FF * 4), (FF * 4, ZZ * 4), (ZZ + r.hex(12), r.hex(4) + ZZ + r.hex(8)), (r.hex(16), r.hex(16))]):
        o = ji % 8
        inj.append([f"hinject id=j{ji}a obj={o} L={Lh} R={Rh}", f"hupdate id=j{ji}b obj={o} d={datav(r, 20)} op=0", f"hfinal id=j{ji}c obj={o} op=0",
                    f"hinject id=j{ji}d obj={o} L={Lh} R={Rh}", f"hfinal id=j{ji}e obj={o} op=0",
                    f"hinject id=j{ji}f obj={o} L={Lh} R={Rh}", f"hupdate id=j{ji}g obj={o} d={datav(r, 16)} op=0",
                    f"hupdate id=j{ji}h obj={o} d={datav(r, 3)} op=0", f"hfinal id=j{ji}i obj={o} op=0"])
    groups = chunks(lines, 12) + inj
    cfgs = ['prod', 'alt3', 'dbg', 'shared', 'portable', 'os', 'uchar'] + (['alt', 'o2', 'alt0'] if chk.thorough else [])
    execs, plans, seen = [], [], set()
    for cfg in cfgs:
        exe2 = exe if cfg == 'prod' else build_driver(chk.wd, cfg)
        if exe2 is None:
            continue
        chk.cov['builds'].append(cfg)
        ex2 = run_exec_groups(exe2, groups)
        new = 0
        for gi, ex in enumerate(ex2):
            key = json.dumps(ex, sort_keys=True)
            if key in seen:
                continue
            seen.add(key)
            for e in ex:
                if e.get('e') == 'Hash':
                    e['learn'] = 0
                if e.get('e') in ('HUpdate', 'HFinal'):
                    e.setdefault('op', 0)
                if cfg != 'prod':
                    e['id'] = f"{cfg}:{e.get('id')}"
            execs.append(ex)
            plans.append(groups[gi] if cfg == 'prod' and gi < len(groups) else None)
            new += 1
        chk.log(f"build {cfg}: {len(ex2)} executions, {new} not identical to an earlier build's")
    # long messages are logged by reference (mspec); regenerate their bytes for TLC (plan data, not an observation)
    for ex in execs:
        for e in ex:
            if e.get('e') == 'Hash' and 'mspec' in e:
                m = re.match(r'@(\d+),(\d+),(\w)', e['mspec'])
                e['m'] = list(gen_data_py(int(m.group(1)), int(m.group(2)), m.group(3)))
    # the same digests obtained through the incremental interface (irregular chunking, reinit after a finalized and
    # after an abandoned message): the digest of every message, however it is supplied, is the MDPH value
    sgroups = []
    for n in [1, 5, 16, 17, 31, 33, 40, 47, 48, 64, 65, 100] + ([200, 257] if chk.thorough else []):
        m = r.bytes(n, 'rh'[n % 2])
        g, pos, k = [f"hinit id=st{n}-i obj={n % 8}"], 0, 0
        while pos < n:
            sz = min(n - pos, r.choice([1, 3, 7, 13, 16, 17, 23, 29]))
            g.append(f"hupdate id=st{n}-u{k} obj={n % 8} d={hx(m[pos:pos + sz])} op=0")
            pos += sz; k += 1
        g.append(f"hfinal id=st{n}-f obj={n % 8} op=0")
        m2 = r.bytes(5 + n % 20)
        g += [f"hreinit id=st{n}-r obj={n % 8}", f"hupdate id=st{n}-v obj={n % 8} d={hx(m2)} op=0", f"hfinal id=st{n}-g obj={n % 8} op=0",
              f"hinit id=st{n}-j obj={n % 8}", f"hupdate id=st{n}-w obj={n % 8} d={hx(m[:n // 2 + 1])} op=0",
              f"hreinit id=st{n}-s obj={n % 8}", f"hupdate id=st{n}-x obj={n % 8} d={hx(m2)} op=0", f"hfinal id=st{n}-h obj={n % 8} op=0"]
        sgroups.append(g)
    sx = run_exec_groups(exe, sgroups)
    annotate(sx, sgroups)
    execs += sx
    plans += sgroups
    # the repository's own KAT program, traced (one-shot and its power-of-two streaming), a seeded sample
    from fam_cipher import kat_program_traces
    kx = kat_program_traces(chk, ['TinyJAMBU-Hash'], 0.03 if chk.thorough else 0.003)
    execs += kx
    plans += [None] * len(kx)
    judge_h(chk, exe, execs, plans)
    chk.sample(execs[0][1]); chk.sample(execs[3][2])
    chk.finish(
        rule="one-shot Hash events for every length 0..80, block/page edges up to 1025 (thorough: 4097, 10000, 65536) x byte "
             "classes (random, >= 0x80, 0xFF, counting) x alignment offsets x NULL/0, on every build configuration (identical "
             "executions judged once), each validated by TLC against the MDPH construction of TJHash (bit-level Compress), "
             "which is anchored on the reference program's vectors; a set of messages is additionally hashed through "
             "init/update*/finalize with irregular chunking and reinit after finalized and abandoned messages",
        assumptions=["the stored TinyJAMBU-HASH/HMAC vectors (spec/anchors) were produced by the independent reference program tools/hashref",
                     "TLC evaluates concrete inputs: the input space is sampled, not exhausted"])


def gen_data_py(seed, n, cls):
    """same generator as the driver's gen_data (splitmix64)"""
    M = (1 << 64) - 1
    s = seed
    out = bytearray()
    for i in range(n):
        if cls == 'z':
            out.append(0)
        elif cls == 'f':
            out.append(0xFF)
        elif cls == 'c':
            out.append(i & 0xFF)
        else:
            s = (s + 0x9E3779B97F4A7C15) & M
            z = s
            z = ((z ^ (z >> 30)) * 0xBF58476D1CE4E5B9) & M
            z = ((z ^ (z >> 27)) * 0x94D049BB133111EB) & M
            z = z ^ (z >> 31)
            out.append((0x80 | (z & 0x7F)) if cls == 'h' else (z & 0xFF))
    return bytes(out)


# ----------------------------------------------------------------------------- C11
def sim_plans(chk, module, cfg, num, depth, seed):
    """behaviours of a model in simulation mode, printed from the PlanOut invariant"""
    rc, out = tlc_run(chk.wd, module, cfg=cfg, workers=1, timeout=600,
                      extra=f"-simulate num={num} -depth {depth} -seed {seed}")
    plans = []
    for line in out.splitlines():
        if line.startswith('<<"PLAN"'):
            m = re.match(r'<<"PLAN", (".*")>>\s*$', line)
            if m:
                plans.append(json.loads(json.loads(m.group(1))))
    if not plans:
        raise MachineryError(f"simulation of {module} produced no plans:\n{out[-1500:]}")
    return plans


def check_C11(chk):
    exe = build_driver(chk.wd, 'prod')
    chk.cov['builds'].append('prod')
    anchor_hash(chk, 16)
    # (A) design level
    r0 = tlc_model(chk.wd, 'MC_HashStream', cfg='MC_HashStream_thorough' if chk.thorough else 'MC_HashStream')
    chk.add_model('MC_HashStream', r0)
    r = Rng(chk.seed ^ 0xC11)
    groups = []
    # (B1) every composition of n, opaque: streamed digest = one-shot digest of the same message
    comps = tlc_plan(chk.wd, 'Plan_Hash', dict(FAMILY='compositions', TIER=chk.tier))
    comps.sort(key=lambda c: (c['n'], c['chunks']))
    msgs = {}
    for ci, c in enumerate(comps):
        n = c['n']
        if n not in msgs:
            msgs[n] = r.bytes(n)
        m = msgs[n]
        g = [f"hash id=c{ci}-one m={hx(m)} learn=1"]
        o = ci % 4
        if ci % 3 == 0:
            g.append(f"garbage id=c{ci}-g kind=hash obj={o} seed={r.randint(1, 9999)}")
        g.append(f"{'hreinit' if ci % 5 == 1 else 'hinit'} id=c{ci}-i obj={o}")
        pos = 0
        for k, sz in enumerate(c['chunks']):
            if (ci + k) % 7 == 0:
                g.append(f"hupdate id=c{ci}-z{k} obj={o} d={'null' if k % 2 else '-'} op=1")
            if (ci + 2 * k) % 11 == 3:
                # the caller moves the state object (memcpy) and goes on with the copy
                o2 = (o + 1 + k % 3) % 8
                g.append(f"hmove id=c{ci}-mv{k} obj={o} to={o2}")
                o = o2
            g.append(f"hupdate id=c{ci}-u{k} obj={o} d={hx(m[pos:pos + sz])} op=1 pl={'es'[k % 2]} off=0,{k % 8}")
            pos += sz
        g.append(f"hfinal id=c{ci}-f obj={o} op=1")
        groups.append(g)
    # long messages (around 2^8, 2^12, 2^16 and beyond), opaque: odd splits against the one-shot digest
    for bi, n in enumerate([255, 256, 257, 4095, 4097, 65535, 65536, 65537, 131073, (1 << 20) + 17] + ([1 << 20, (1 << 21) + 5] if chk.thorough else [])):
        seedv = r.randint(1, 2 ** 40)
        full = f"@{seedv},{n},r"
        m = gen_data_py(seedv, n, 'r')
        for si, parts in enumerate([[n // 2, n - n // 2], [1, n - 1], [n - 1, 1], [15, 255, n - 270] if n > 300 else [n // 3, n - n // 3],
                                    [n - 65536 - 3, 65536, 3] if n > 65540 else [5, n - 5]]):
            if any(p_ < 0 for p_ in parts):
                continue
            g = [f"hash id=L{bi}-{si}-one m={full if n > 1500 else hx(m)} learn=1", f"hinit id=L{bi}-{si}-i obj={si}"]
            pos = 0
            for k, sz in enumerate(parts):
                g.append(f"hupdate id=L{bi}-{si}-u{k} obj={si} d={hx(m[pos:pos + sz]) if sz else '-'} op=1")
                pos += sz
            g.append(f"hfinal id=L{bi}-{si}-f obj={si} op=1")
            groups.append(g)
    # the empty message given as NULL/0 and as a valid pointer/0, one-shot and streamed, interpreted
    # in place: the one-shot digest replaces the start of the message it was computed from
    groups.append([f"hash id=ip{n} m={hx(r.bytes(n))} inplace=1 learn=0" for n in (1, 16, 31, 32, 33, 70)])
    groups.append([f"hash id=nul-one m=null learn=0 pf=0", f"hash id=nul-one2 m=null learn=0 pf=255", f"hash id=emp-one m=- learn=0",
                   "hinit id=nul-i obj=3", "hupdate id=nul-u obj=3 d=null op=0", "hfinal id=nul-f obj=3 op=0",
                   "hinit id=nul-i2 obj=4", "hfinal id=nul-f2 obj=4 op=0"])
    # the learned one-shot digests themselves, interpreted once per distinct message
    g = [f"hash id=m{n} m={hx(m)} learn=0" for n, m in sorted(msgs.items())]
    groups.extend(chunks(g, 6))
    # (B2) edge cover of the (posn, len) transition graph, interpreted
    edges = tlc_plan(chk.wd, 'Plan_Hash', dict(FAMILY='edges', TIER=chk.tier))
    edges.sort(key=lambda e: (e['posn'], e['len']))
    eg = []
    for ei, e in enumerate(edges):
        o = ei % 8
        a, b = r.bytes(e['posn'], 'rh'[ei % 2]), r.bytes(e['len'], 'rh'[(ei // 2) % 2])
        eg.append([f"hinit id=e{ei}-i obj={o}",
                   f"hupdate id=e{ei}-a obj={o} d={hx(a)} op=0",
                   f"hupdate id=e{ei}-b obj={o} d={hx(b) if len(b) else ('null' if ei % 2 else '-')} op=0 off=0,{ei % 8}",
                   f"hfinal id=e{ei}-f obj={o} op=0",
                   f"hash id=e{ei}-one m={hx(a + b)} learn=1"] + ([f"hfree id=e{ei}-x obj={o}"] if ei % 3 == 0 else []))
    for c in chunks(eg, 4):
        groups.append([ln for g in c for ln in g])
    # (B3) multi-object histories generated by TLC in simulation mode from the model
    nsim = 400 if chk.thorough else 120
    plans = sim_plans(chk, 'MC_HashStream', 'MC_HashStream_sim', nsim, 14, chk.seed % 100000)
    chk.cov['simulated_histories'] = len(plans)
    for pi, p in enumerate(plans):
        g, msg = [], {}
        interp = 0 if pi % 4 else 1            # a quarter of the histories is judged interpreted
        for k, op in enumerate(p):
            o = op['obj']
            if op['op'] == 'garbage':
                g.append(f"garbage id=s{pi}-{k} kind=hash obj={o} seed={r.randint(1, 99999)} cls={r.choice('rfz')}")
                msg.pop(o, None)
            elif op['op'] in ('hinit', 'hreinit'):
                g.append(f"{op['op']} id=s{pi}-{k} obj={o}")
                msg[o] = b''
            elif op['op'] == 'hupdate':
                d = r.bytes(op['len'])
                msg[o] = msg.get(o, b'') + d
                g.append(f"hupdate id=s{pi}-{k} obj={o} d={hx(d) if d else ('null' if k % 2 else '-')} op={0 if interp else 1}")
            elif op['op'] == 'hfinal':
                if not interp:
                    g.append(f"hash id=s{pi}-{k}-one m={hx(msg.get(o, b''))} learn=1")
                g.append(f"hfinal id=s{pi}-{k} obj={o} op={0 if interp else 1}")
            elif op['op'] == 'hfree':
                g.append(f"hfree id=s{pi}-{k} obj={o}")
                msg.pop(o, None)
        groups.append(g)
    execs = run_exec_groups(exe, groups)
    annotate(execs, groups)
    for ex in execs:
        for e in ex:
            if e.get('e') == 'Hash' and 'mspec' in e:          # long messages are logged by reference: plan data, not an observation
                mm_ = re.match(r'@(\d+),(\d+),(\w)', e['mspec'])
                e['m'] = list(gen_data_py(int(mm_.group(1)), int(mm_.group(2)), mm_.group(3)))
    if chk.thorough:
        # 4 GiB + 5 zero bytes, one-shot and split; each takes minutes natively, so they run side by side
        T = (1 << 32) + 5
        huge = [f"hashhuge id=huge-one total={T}", f"hashhuge id=huge-halves total={T} split={1 << 31},{1 << 31},5",
                f"hashhuge id=huge-5first total={T} split=5,{1 << 32}", f"hashhuge id=huge-3last total={T} split={(1 << 32) + 2},3"]
        with ThreadPoolExecutor(4) as ex:
            hres = list(ex.map(lambda ln: run_driver(exe, [ln], timeout=3000)[0], huge))
        execs.append([{"e": "Reset", "id": "huge"}] + [e for r_ in hres for e in r_])
        groups.append(None)
        chk.cov['huge_messages'] = len(huge)
    judge_h(chk, exe, execs, groups)
    nfin = sum(1 for ex in execs for e in ex if e.get('e') == 'HFinal')
    chk.cov['finalize_events'] = nfin
    chk.cov['compositions'] = len(comps)
    chk.cov['edge_transitions'] = len(edges)
    chk.sample([trim(e, 10) for e in execs[5][:8]])
    chk.sample(plans[0])
    chk.finish(
        rule="MC_HashStream: TLC exhaustive over all interleavings of init/reinit/update(len)/finalize/free/garbage on 2 objects "
             "(data-abstract; invariants StreamingEqOneShot, BufBound, FreeErases; action properties InitResets, Isolation); "
             "bound to the code by (1) every composition of every length n <= NComp into update calls plus block-straddling "
             "compositions of 33/40 bytes, with empty and NULL/0 updates inserted, judged opaquely (digest = one-shot digest of "
             "the same message, learned in the same execution), (2) every (posn 0..15, len 0..48) transition judged by the "
             "interpreted machine, (3) multi-object histories generated by TLC -simulate from the model",
        assumptions=["behaviour the property leaves open is not exercised: update/finalize on a finalized, freed or garbage object"])


# ----------------------------------------------------------------------------- C12
def check_C12(chk):
    exe = build_driver(chk.wd, 'prod')
    chk.cov['builds'].append('prod')
    anchor_hash(chk, 24)
    grid = tlc_plan(chk.wd, 'Plan_Hash', dict(FAMILY='hmacgrid', TIER=chk.tier))
    grid.sort(key=lambda g: (g['klen'], g['mlen']))
    r = Rng(chk.seed ^ 0xC12)
    groups = []
    for gi, gsh in enumerate(grid):
        kl, ml = gsh['klen'], gsh['mlen']
        k = r.bytes(kl, 'rh'[gi % 2])
        m = r.bytes(ml, 'rhf'[gi % 3])
        ks = hx(k) if kl else ('null' if gi % 2 else '-')
        o = gi % 8
        g = [f"hmac id=g{gi}-one k={ks} m={hx(m) if ml else ('null' if gi % 3 == 0 else '-')} off={gi % 8},{(gi + 1) % 8},{(gi + 5) % 8}"]
        # streamed, with a chunking chosen to straddle block boundaries
        if gi % 2 == 0:
            g.append(f"garbage id=g{gi}-g kind=hmac obj={o} seed={gi + 1}")
        g.append(f"hminit id=g{gi}-i obj={o} k={ks}")
        # reinit after an arbitrary prefix
        if gi % 3 == 1:
            g.append(f"hmupdate id=g{gi}-p obj={o} d={hx(r.bytes(r.randint(1, 40)))}")
            g.append(f"hmreinit id=g{gi}-ri obj={o} k={ks}")
        pos, k_ = 0, 0
        while pos < ml:
            sz = min(ml - pos, r.choice([1, 3, 5, 13, 16, 17, 27, 40, 150]))
            g.append(f"hmupdate id=g{gi}-u{k_} obj={o} d={hx(m[pos:pos + sz])}")
            pos += sz; k_ += 1
        if gi % 4 == 0:
            g.append(f"hmupdate id=g{gi}-z obj={o} d=null")
        g.append(f"hmfinal id=g{gi}-f obj={o} k={ks}")
        if gi % 5 == 0:
            g.append(f"hmfree id=g{gi}-x obj={o}")
        groups.append(g)
    # value classes of the key (ends in 00 / a run of 00 / 80 00.. / all zero / begins with 00) for every key-length class,
    # one-shot and streamed; in-place one-shot (tag replaces the start of the message)
    for kl in (1, 31, 32, 33, 63, 64, 65, 66, 80, 100, 128, 129, 200):
        for ci, cls in enumerate('zet8l'):
            k = r.bytes(kl, cls)
            m = r.bytes([0, 5, 16, 40, 70][ci], 'r8e'[kl % 3])
            o = (kl + ci) % 8
            groups.append([f"hmac id=vk{kl}{cls}-one k={hx(k)} m={hx(m) if m else '-'}",
                           f"hminit id=vk{kl}{cls}-i obj={o} k={hx(k)}", f"hmupdate id=vk{kl}{cls}-u obj={o} d={hx(m) if m else '-'}",
                           f"hmfinal id=vk{kl}{cls}-f obj={o} k={hx(k)}"])
    for kl, ml in ((0, 0), (5, 1), (32, 32), (64, 33), (65, 40), (100, 64), (200, 100)):
        groups.append([f"hmac id=ip{kl}-{ml} k={datav(r, kl) if kl else '-'} m={datav(r, ml) if ml else '-'} inplace=1"])
    # an object is reused under another key: reinit (= free + init) with a key of another length class or other bytes of the same
    # length, after finalize, in mid-message, and after free
    for ri, (k1, k2) in enumerate([(5, 5), (5, 32), (32, 64), (64, 65), (65, 64), (100, 7), (100, 130), (0, 20), (20, 0)]):
        ka, kb, o = r.bytes(k1), r.bytes(k2), ri % 8
        ha, hb = (hx(ka) if k1 else '-'), (hx(kb) if k2 else '-')
        m1, m2 = hx(r.bytes(9 + ri)), hx(r.bytes(20 + ri))
        groups.append([f"hminit id=rk{ri}-i obj={o} k={ha}", f"hmupdate id=rk{ri}-u obj={o} d={m1}", f"hmfinal id=rk{ri}-f obj={o} k={ha}",
                       f"hmreinit id=rk{ri}-r obj={o} k={hb}", f"hmupdate id=rk{ri}-v obj={o} d={m2}", f"hmfinal id=rk{ri}-g obj={o} k={hb}",
                       f"hmupdate id=rk{ri}-w obj={o} d={m1}" if False else f"hmreinit id=rk{ri}-r2 obj={o} k={ha}",
                       f"hmupdate id=rk{ri}-x obj={o} d={m1}", f"hmreinit id=rk{ri}-r3 obj={o} k={hb}", f"hmupdate id=rk{ri}-y obj={o} d={m2}",
                       f"hmfinal id=rk{ri}-h obj={o} k={hb}", f"hmfree id=rk{ri}-z obj={o}",
                       f"hmreinit id=rk{ri}-r4 obj={o} k={ha}", f"hmupdate id=rk{ri}-a obj={o} d={m2}", f"hmfinal id=rk{ri}-b obj={o} k={ha}"])
    execs = run_exec_groups(exe, groups)
    from fam_cipher import kat_program_traces
    kx = kat_program_traces(chk, ['TinyJAMBU-HMAC'], 0.03 if chk.thorough else 0.003)
    execs += kx
    groups += [None] * len(kx)
    judge_h(chk, exe, execs, groups)
    chk.sample([trim(e, 8) for e in execs[7][:6]])
    chk.finish(
        rule="key lengths {0,1,31,32,33,63,64,65,66,100,128,200,257,...} x message lengths around block boundaries (TLC-expanded "
             "grid), each as one-shot Hmac and as init/[update prefix, reinit]/update*/finalize with block-straddling chunkings, "
             "NULL keys and NULL/0 updates, garbage prior object contents; every event validated by TLC against RFC 2104 over "
             "the interpreted TinyJAMBU-Hash (TJHmac), anchored on the reference program's HMAC vectors",
        assumptions=["finalize is always given the key the object was initialised with (anything else is left open by the property)"])


# ----------------------------------------------------------------------------- C13
def check_C13(chk):
    exe = build_driver(chk.wd, 'prod')
    chk.cov['builds'].append('prod')
    anchor_hash(chk, 12)
    chk.add_model('MC_HkdfCtl(real scale)', tlc_model(chk.wd, 'MC_HkdfCtl', cfg='MC_HkdfCtl', workers=4))
    chk.add_model('MC_HkdfCtl(B=4,NBlocks=4)', tlc_model(chk.wd, 'MC_HkdfCtl', cfg='MC_HkdfCtl_small', workers=4))
    r = Rng(chk.seed ^ 0xC13)
    groups = []
    # one-shot grid
    grid = tlc_plan(chk.wd, 'Plan_Hash', dict(FAMILY='hkdfgrid', TIER=chk.tier))
    grid.sort(key=lambda g: json.dumps(g, sort_keys=True))
    g = []
    for gi, s in enumerate(grid):
        salt = r.bytes(s['slen']) if s['slen'] else None
        g.append(f"hkdf id=o{gi} len={s['len']} key={datav(r, s['klen'])} salt={hx(salt) if salt else ('null' if gi % 2 else '-')} "
                 f"info={datav(r, s['ilen'])} off={gi % 8} pf={r.choice([0, 255, 165])}")
    groups.extend(chunks(g, 3))
    # value classes of salt and key (the salt is the HMAC key of extract: its length classes 64/65 matter)
    g = []
    for sl in (1, 32, 33, 64, 65, 80, 100, 129):
        for ci, cls in enumerate('zet8l'):
            g.append(f"hkdf id=vs{sl}{cls} len={[1, 32, 33, 40, 64][ci]} key={datav(r, [5, 16, 32, 65, 100][ci], 'rte'[sl % 3])} salt={datav(r, sl, cls)} "
                     f"info={datav(r, ci, 'e')}")
    groups.extend(chunks(g, 3))
    # empty salt = 32 zero bytes: same key, both salts, outputs must both match the spec (hence each other)
    key = r.bytes(20)
    groups.append([f"hkdf id=salt-empty len=40 key={hx(key)} salt=null info=01", f"hkdf id=salt-zero32 len=40 key={hx(key)} salt={'00' * 32} info=01"])
    # the limit: one-shot 8159 / 8160 / 8161 / 2^20 / 2^32+5 (refused, nothing written)
    kk, ss, ii = datav(r, 16), datav(r, 8), datav(r, 3)
    # ... and the top of the size_t range (len=-1 is SIZE_MAX): length arithmetic of the guard must not wrap
    for n in ([8160, 8161, 1 << 20, -1, -8, -31, -32] + ([8159, 8162, (1 << 32) + 5, -30, -33, (1 << 32) + 8160] if chk.thorough else [(1 << 32) + 5])):
        groups.append([f"hkdf id=lim{n} len={n} key={kk} salt={ss} info={ii}"])
    # incremental: every (posn, len) edge
    edges = tlc_plan(chk.wd, 'Plan_Hash', dict(FAMILY='hkdfedges', TIER=chk.tier))
    edges.sort(key=lambda e: (e['posn'], e['len']))
    eg = []
    for ei, e in enumerate(edges):
        o = ei % 8
        info = datav(r, ei % 5)
        first = 32 + e['posn'] if e['posn'] < 32 else 64
        eg.append([f"hkextract id=k{ei}-x obj={o} key={datav(r, 1 + ei % 40)} salt={datav(r, ei % 33)}",
                   f"hkexpand id=k{ei}-a obj={o} info={info} len={first}",
                   f"hkexpand id=k{ei}-b obj={o} info={info} len={e['len']} off={ei % 8}",
                   f"hkexpand id=k{ei}-c obj={o} info={info} len=33"] + ([f"hkfree id=k{ei}-f obj={o}"] if ei % 4 == 0 else []))
    for c in chunks(eg, 2):
        groups.append([ln for g_ in c for ln in g_])
    # incremental families across the 8160 limit
    fam = [[8160, 1], [8100, 100], [8129, 7, 24, 1], [8064, 97], [8192], [4000, 4000, 160, 0, 1], [8159, 1, 1, 0, 5]]
    if chk.thorough:
        fam += [[32] * 255 + [1, 32], [8128, 31, 1, 1], [8161], [1] * 40 + [8120, 1], [8160, 0, 0, 40]]
    for fi, f in enumerate(fam):
        info = datav(r, 2)
        groups.append([f"hkextract id=f{fi}-x obj=1 key={datav(r, 32)} salt={datav(r, 16)}"] +
                      [f"hkexpand id=f{fi}-e{k} obj=1 info={info} len={n} pf={r.choice([255, 165])}" for k, n in enumerate(f)] +
                      [f"hkfree id=f{fi}-f obj=1"])
    # histories generated from the model in simulation mode
    plans = sim_plans(chk, 'MC_HkdfCtl', 'MC_HkdfCtl_sim', 60 if chk.thorough else 16, 10, chk.seed % 100000)
    chk.cov['simulated_histories'] = len(plans)
    for pi, p in enumerate(plans):
        g, live, info = [], False, datav(r, pi % 7)
        for k, op in enumerate(p):
            if op['op'] == 'hkextract':
                g.append(f"hkextract id=s{pi}-{k} obj=2 key={datav(r, 5 + pi % 60)} salt={datav(r, pi % 70)}"); live = True
            elif op['op'] == 'hkexpand' and live:
                g.append(f"hkexpand id=s{pi}-{k} obj=2 info={info} len={op['len']}")
            elif op['op'] == 'hkfree' and live:
                g.append(f"hkfree id=s{pi}-{k} obj=2"); live = False
        if g:
            groups.append(g)
    execs = run_exec_groups(exe, groups)
    execs += relational_kdf(chk, exe, r, 'hkdf')
    execs2 = [y for x in split_long(execs) for y in split_incremental(x)]
    judge_h(chk, exe, execs2, None)
    nref = sum(1 for ex in execs for e in ex if e.get('e') in ('HkExpand', 'Hkdf') and e.get('res') == -1)
    chk.cov['refused_requests'] = nref
    if nref < 3:
        raise MachineryError("vacuous: no refused HKDF request in the run")
    chk.sample([trim(e, 8) for e in execs[0][:3]])
    chk.finish(
        rule="MC_HkdfCtl: TLC exhaustive over sequences of expand requests (real scale around the 8160 limit; scaled-down instance "
             "over every request length) - every call serves exactly the next bytes of T(1)||...||T(255), zeros past the limit, "
             "-1 iff a byte past the limit was requested; bound to the code by a one-shot grid (key/salt/info length classes, "
             "empty salt vs 32 zero bytes), the one-shot limit (8160/8161/2^20/2^32+5 and SIZE_MAX, SIZE_MAX-7, -30, -31: refused, nothing written), every "
             "(posn, len) edge of the incremental machine, families crossing the limit, and TLC-simulated histories; validated "
             "by TLC against RFC 5869 over the interpreted HMAC; long one-shot outputs are checked block by block "
             "(T(n) = HMAC(PRK, T(n-1) || info || n) with T(n-1) taken from the same output: exact by induction)",
        assumptions=["HKDF has no independent reference in the repository: the oracle is RFC 5869's text over the anchored HMAC",
                     "expand is always called with the same info within one history (the property's premise)"])


# ----------------------------------------------------------------------------- C14
def check_C14(chk):
    exe = build_driver(chk.wd, 'prod', extra='-DTJD_WRAP_HMAC', wraps=('tinyjambu_hmac_finalize',))
    chk.cov['builds'].append('prod')
    anchor_hash(chk, 12)
    grid = tlc_plan(chk.wd, 'Plan_Hash', dict(FAMILY='pbgrid', TIER=chk.tier))
    grid.sort(key=lambda g: json.dumps(g, sort_keys=True))
    if not chk.thorough:
        grid = [g for i, g in enumerate(grid) if i % 3 == 0]
    r = Rng(chk.seed ^ 0xC14)
    lines = []
    for gi, s in enumerate(grid):
        pw = r.bytes(s['plen'], 'rh'[gi % 2])
        lines.append(f"pbkdf2 id=p{gi} len={s['len']} count={s['count']} pw={hx(pw) if pw else ('null' if gi % 2 else '-')} "
                     f"salt={datav(r, s['slen']) if s['slen'] else ('null' if gi % 3 == 0 else '-')} off={gi % 8} pf={r.choice([0, 255, 165])}")
    # value classes of the password (the HMAC key: ends in 00 / run of 00 / 80 00.. / all zero / begins with 00) and of the salt
    for pl in (1, 32, 63, 64, 65, 72, 100, 129):
        for ci, cls in enumerate('zet8l'):
            lines.append(f"pbkdf2 id=vp{pl}{cls} len={[20, 32, 33, 40, 64][ci]} count={1 + (pl + ci) % 3} pw={datav(r, pl, cls)} salt={datav(r, [0, 4, 8, 16, 33][ci], 'ret'[pl % 3]) if ci else '-'}")
    # prefix property and exact length: the same parameters at several lengths
    pw, salt = datav(r, 11), datav(r, 9)
    for n in (0, 1, 31, 32, 33, 64, 65, 100):
        lines.append(f"pbkdf2 id=pre{n} len={n} count=3 pw={pw} salt={salt} pl={'es'[n % 2]}")
    # many blocks: block index 256 = 00 00 01 00
    lines.append(f"pbkdf2 id=long258 len={32 * 257 + 5} count=1 pw={datav(r, 12)} salt={datav(r, 7)}")
    # larger counts: interpreted up to 100; thousands through the interposed PRF chain, link by link
    for c in ([100] + ([512] if chk.thorough else [])):
        lines.append(f"pbkdf2 id=cnt{c} len=33 count={c} pw={datav(r, 9)} salt={datav(r, 16)}")
    for c in ([255, 256, 257, 1000] + ([4096, 65537] if chk.thorough else [])):
        lines.append(f"pbkdf2 id=chain{c} len={33 if c < 5000 else 20} count={c} pw={datav(r, 7 + c % 70)} salt={datav(r, 16)} chain=1")
    groups = chunks(lines, 2)
    execs = run_exec_groups(exe, groups)
    execs += relational_kdf(chk, exe, r, 'pbkdf2')
    execs2 = split_long(split_chain(execs, chk))
    judge_h(chk, exe, execs2, None)
    chk.cov['prf_chain_links_validated'] = sum(1 for ex in execs2 for e in ex if e.get('e') == 'PbLink')
    chk.sample(trim(execs[0][1], 12))
    chk.finish(
        rule="TLC-expanded parameter grid (password lengths incl. 0/63/64/65/100, salt lengths incl. 0/13/60, counts 0..5(17), "
             "output lengths incl. non-multiples of 32), prefix family, a 257-block output with count 1 (block index 256), "
             "count 100 interpreted, counts 255/256/257/1000 (thorough: 4096, 65537) through the PRF chain recorded by link-time "
             "interposition of tinyjambu_hmac_finalize and validated link by link (U_j = HMAC(P, U_(j-1)), T = xor of the U_j); "
             "every event validated by TLC against RFC 8018's F function over the interpreted "
             "HMAC; outputs longer than 96 bytes are checked block by block (blocks are independent given password, salt, count)",
        assumptions=["PBKDF2 has no independent reference in the repository: the oracle is RFC 8018's text over the anchored HMAC"])
