#!/usr/bin/env python3
"""Turn a NIST-style KAT file (Count/Key/Nonce/PT/AD/CT or Msg/MD or Key/Msg/Tag) into
ndjson events for the trace specifications.  Used to anchor the TLA+ oracle itself."""
import sys, json
def hexb(s): return list(bytes.fromhex(s.strip()))
def vectors(path):
    cur = {}
    for line in open(path):
        line = line.strip()
        if not line:
            if cur: yield cur
            cur = {}
            continue
        k, _, v = line.partition('=')
        cur[k.strip()] = v.strip()
    if cur: yield cur
def events(path, kind, select=None):
    out = []
    for v in vectors(path):
        cnt = int(v['Count'])
        if select is not None and cnt not in select: continue
        if kind in ('aead', 'siv'):
            m = hexb(v['PT']); o = hexb(v['CT'])
            out.append({"e": "Enc", "id": f"kat-{kind}-{cnt}", "mode": kind, "k": hexb(v['Key']), "n": hexb(v['Nonce']),
                        "ad": hexb(v['AD']), "m": m, "out": o, "clen": len(o), "keep": 0})
        elif kind == 'hash':
            out.append({"e": "Hash", "id": f"kat-hash-{cnt}", "m": hexb(v['Msg']), "out": hexb(v['MD'])})
        elif kind == 'hmac':
            out.append({"e": "Hmac", "id": f"kat-hmac-{cnt}", "k": hexb(v['Key']), "m": hexb(v['Msg']), "out": hexb(v['Tag'])})
    return out
if __name__ == '__main__':
    path, kind = sys.argv[1], sys.argv[2]
    sel = set(int(x) for x in sys.argv[3].split(',')) if len(sys.argv) > 3 else None
    for e in events(path, kind, sel): print(json.dumps(e, separators=(',', ':')))
