"""Checks for the cipher family: C01 C02 C03 C04 C08 C09 (AEAD + SIV, 128/192/256)."""
import os, json, gzip, itertools
from tjv import *

KLEN = {128: 16, 192: 24, 256: 32}


def anchors(name, select=None):
    evs = [json.loads(l) for l in gzip.open(os.path.join(SPEC, 'anchors', name + '.ndjson.gz'), 'rt')]
    if select is not None:
        evs = [e for i, e in enumerate(evs) if select(i)]
    for e in evs:      # vectors from a file: no buffers were observed
        e.setdefault('canary', 1); e.setdefault('inmod', 0)
    return evs


def steps_cost(ev):
    """rough NLFSR step count of interpreting one event (for shard balancing)"""
    e = ev.get('e')
    if e in ('Enc', 'Dec', 'Packet'):
        v = ev.get('v') or (len(ev.get('k', [])) * 8) or 128
        P = {128: 1024, 192: 1152, 256: 1280}.get(v, 1024)
        a = len(ev.get('ad', []))
        m = len(ev.get('m', ev.get('c', ev.get('body', []))))
        c = P + 3 * 640 + ((a + 3) // 4) * 640 + ((m + 3) // 4) * P + P + 640
        if ev.get('mode') == 'siv':
            c += P + 3 * 640 + ((m + 3) // 4) * P
        return c
    return 50


def anchor_oracle(chk, names, per_file):
    """Validate the TLA+ oracle itself against the stored KAT vectors. Failure = machinery error."""
    execs = []
    for n in names:
        evs = anchors(n)
        if per_file and per_file < len(evs):
            r = Rng(chk.seed ^ hash(n) & 0xFFFF)
            keep = set(r.sample(range(len(evs)), per_file)) | {0, 1, 2, 3, 4, len(evs) - 1}
            evs = [e for i, e in enumerate(evs) if i in keep]
        for i in range(0, len(evs), 40):
            execs.append([{"e": "Reset", "id": f"anchor-{n}-{i}"}] + evs[i:i + 40])
    res = validate(chk.wd, 'TV_Cipher', execs, cost=steps_cost)
    if res['errors'] or res['mismatches']:
        raise MachineryError("oracle anchoring against the KAT vectors failed: " +
                             json.dumps([m[2] for m in res['mismatches']][:3]) + ' '.join(res['errors'])[:1500])
    chk.cov['states'] += res['states']
    chk.cov['transitions'] += res['transitions']
    chk.cov.setdefault('oracle_anchor_vectors', 0)
    chk.cov['oracle_anchor_vectors'] += res['events']
    chk.log(f"oracle anchored on {res['events']} KAT vectors ({', '.join(names)})")


SHARED_PREFIX = bytes(range(0xA0, 0xB0))


def mkkey(r, n, cls):
    if cls == 'p':          # keys that share their first 16 bytes with other keys of the same run
        return (SHARED_PREFIX + r.bytes(n - 16)) if n > 16 else r.bytes(n)
    if cls == 'z':
        return bytes(n)
    if cls == 'w':          # some aligned 32-bit words are zero (a packet counter padded with zeroes), the others random
        pat = r.randint(1, (1 << (n // 4)) - 2)
        return b''.join((bytes(4) if (pat >> i) & 1 else r.bytes(4)) for i in range(n // 4))
    if cls == 'f':
        return b'\xff' * n
    if cls == 'b':
        b = bytearray(n)
        i = r.randint(0, 8 * n - 1)
        b[i // 8] |= 1 << (i % 8)
        return bytes(b)
    return r.bytes(n)


def shape_data(r, sh):
    v = sh['v']
    kc = sh.get('kcls', 'r')
    if kc == 'r' and v > 128 and (sh.get('adlen', 0) + sh.get('mlen', 0)) % 5 == 0:
        kc = 'p'
    return dict(k=mkkey(r, KLEN[v], kc), n=mkkey(r, 12, sh.get('kcls', 'r') if r.randint(0, 1) else 'r'),
                ad=r.bytes(sh['adlen'], sh.get('cls', 'r')), m=r.bytes(sh['mlen'], sh.get('cls', 'r')))


def nullable(b, sel):
    """empty buffers are passed alternately as a valid pointer with length 0 and as NULL"""
    return hx(b) if len(b) else ('null' if sel else '-')


def enc_line(i, mode, sh, d, keep=1):
    off = f"{sh.get('oc', 0)},{sh.get('om', 0)},{(sh.get('oc', 0) + 3) % 8},{(sh.get('om', 0) + 1) % 4},{(sh.get('oc', 0) + 2) % 4}"
    sel = (sh['v'] // 64 + len(d['m']) + len(d['ad']) + sh.get('alias', 0)) % 2
    return (f"enc id={i} mode={mode} v={sh['v']} k={hx(d['k'])} n={hx(d['n'])} ad={nullable(d['ad'], sel)} m={nullable(d['m'], 1 - sel)} "
            f"alias={sh.get('alias', 0)} pl={sh.get('pl', 'e')} off={off} keep={keep} pf={sh.get('pf', 165)}")


def dec_line(i, mode, sh, d, c, ev='dec', pf=None):
    off = f"{sh.get('oc', 0)},{sh.get('om', 0)},{(sh.get('oc', 0) + 3) % 8},{(sh.get('om', 0) + 1) % 4},{(sh.get('oc', 0) + 2) % 4}"
    sel = (sh['v'] // 64 + len(c) + len(d['ad']) + sh.get('alias', 0)) % 2
    # what the caller's length variable holds before the call: SIZE_MAX, 0, 1, one less than / exactly the plaintext length
    ml0 = [-1, 0, 1, max(0, len(c) - 9), max(0, len(c) - 8), 3][(len(c) + 3 * len(d['ad']) + sh['v'] // 64 + d['k'][0]) % 6]
    return (f"{ev} id={i} mode={mode} v={sh['v']} k={hx(d['k'])} n={hx(d['n'])} ad={nullable(d['ad'], sel)} c={hx(c)} mnull={1 - sel} mlen0={ml0} "
            f"alias={sh.get('alias', 0)} pl={sh.get('pl', 'e')} off={off} pf={pf if pf is not None else sh.get('pf', 165)}")


def run_groups(chk, exe, groups, module='TV_Cipher', label=''):
    """groups: list of lists of plan lines (one execution each). Returns executions of events; faults become violations."""
    lines = []
    for gi, g in enumerate(groups):
        lines.append(f"reset id=x{gi}")
        lines.extend(g)
    events, err = run_driver(exe, lines, timeout=1200)
    execs = split_executions(events)
    return execs, lines


def judge(chk, exe, execs, plan_by_exec, module='TV_Cipher', cost=steps_cost, nontrivial=None, dedupe=False, all_plans=None):
    if all_plans is None:
        all_plans = plan_by_exec
    """Validate executions with TLC; confirm each rejection by re-executing that execution; record violations."""
    for ex in execs:
        for ev in ex:
            if ev.get('e') in ('Fault', 'Garbled'):
                pass
    res = validate(chk.wd, module, execs, cost=cost)
    chk.add_validation(module, res, execs, nontrivial=nontrivial)
    seen = set()
    for (xi, ev, mm) in res['mismatches']:
        if xi in seen:
            continue
        seen.add(xi)
        plan = plan_by_exec(xi)
        confirmed, note = True, ''
        if plan is not None and len(seen) <= 2:      # confirm the first rejections by re-execution
            ev2, _ = run_driver(exe, plan, timeout=600)
            r2 = validate(chk.wd, module, split_executions(ev2), cost=cost, shards=1)
            if r2['errors']:
                raise MachineryError("re-validation failed: " + r2['errors'][0][:1000])
            confirmed = len(r2['mismatches']) > 0
            if not confirmed and all_plans is not None:
                # not reproducible in a fresh process: does it depend on the calls made earlier in the same process?
                lines = []
                for gi in range(xi + 1):
                    g = all_plans(gi)
                    if g:
                        lines.extend(g)
                ev3, _ = run_driver(exe, lines, timeout=1200)
                x3 = split_executions(ev3)
                r3 = validate(chk.wd, module, x3[-1:], cost=cost, shards=1) if x3 else dict(mismatches=[], errors=[])
                confirmed = len(r3['mismatches']) > 0
                note = ' (only after the earlier calls of the same process: the result depends on unrelated earlier calls)'
        if not confirmed:
            raise MachineryError(f"rejection of event {ev.get('id')} did not repeat on re-execution (flaky machinery)")
        chk.violation(f"event {ev.get('id')} ({ev.get('e')}) is not a behaviour of the specification{note}: expected {json.dumps(trim(mm.get('expected'), 40))[:400]}",
                      dict(trace_spec=module, plan=plan, event=trim(ev, 80), expected=trim(mm.get('expected'), 80)))
    return res


def chunks(xs, n):
    return [xs[i:i + n] for i in range(0, len(xs), n)]


# ----------------------------------------------------------------------------- round trip (C01 AEAD, C08 SIV)
def roundtrip_plan(chk, exe, mode, shapes, builds_extra=()):
    r = Rng(chk.seed ^ (0xA1 if mode == 'aead' else 0x51))
    datas = [shape_data(r, sh) for sh in shapes]
    # phase 1: encrypt; phase 2: decrypt exactly what the implementation produced
    enc_lines = [enc_line(f"e{i}", mode, sh, d) for i, (sh, d) in enumerate(zip(shapes, datas))]
    ev1, _ = run_driver(exe, enc_lines, timeout=900)
    outs = {e['id']: e for e in ev1 if e.get('e') == 'Enc'}
    groups = []
    # in-band sentinels: plaintexts chosen so that an aligned word of the CIPHERTEXT is FF FF FF FF or 00 00 00 00 (the
    # keystream of word j does not depend on plaintext word j, so m'[j] = m[j] ^ c[j] ^ target), encrypted and decrypted;
    # and the same encryption once more into a buffer that still holds the first result's tag behind a scribbled body
    xg = []
    for i, sh in enumerate(shapes):
        o = outs.get(f"e{i}")
        if o is None or sh.get('alias') or sh['mlen'] >= 300:
            continue
        if mode == 'aead' and i % 17 == 3 and sh['mlen'] >= 4:
            c0, m0 = bytes(o['out']), datas[i]['m']
            for ti, target in enumerate((b'\xff' * 4, bytes(4))):
                j = ((i // 17) + ti) % (sh['mlen'] // 4)
                m2 = bytearray(m0)
                for b in range(4):
                    m2[4 * j + b] = m0[4 * j + b] ^ c0[4 * j + b] ^ target[b]
                xg.append((i, ti, dict(datas[i], m=bytes(m2))))
        if i % 19 == 5:
            groups.append([enc_line(f"a{i}", mode, sh, datas[i], keep=0) + " again=1"])
    if xg:
        ev2, _ = run_driver(exe, [enc_line(f"x{i}-{ti}", mode, shapes[i], d2) for i, ti, d2 in xg], timeout=900)
        o2 = {e['id']: e for e in ev2 if e.get('e') == 'Enc'}
        g = []
        for i, ti, d2 in xg:
            g.append(enc_line(f"x{i}-{ti}", mode, shapes[i], d2, keep=0))
            if f"x{i}-{ti}" in o2:
                g.append(dec_line(f"y{i}-{ti}", mode, shapes[i], d2, bytes(o2[f"x{i}-{ti}"]['out'])))
        groups.extend(chunks(g, 12))
    for i, sh in enumerate(shapes):
        if sh['mlen'] >= 100000 and f"e{i}" in outs:      # very long: one event per execution so the shards share them
            groups.append([enc_lines[i]])
            groups.append([dec_line(f"d{i}", mode, sh, datas[i], bytes(outs[f"e{i}"]['out']))])
    for grp in chunks([i for i in range(len(shapes)) if shapes[i]['mlen'] < 100000], 12):
        g = []
        for i in grp:
            g.append(enc_lines[i])
        for i in grp:
            o = outs.get(f"e{i}")
            if o is None:
                continue
            g.append(dec_line(f"d{i}", mode, shapes[i], datas[i], bytes(o['out'])))
            if i % 9 in (4, 7) and not shapes[i].get('alias') and shapes[i]['mlen'] < 5000:
                # separate buffers 4 GiB / 2 GiB apart in the address space (a 32-bit pointer difference would call them overlapping)
                g.append(dec_line(f"d{i}far", mode, shapes[i], datas[i], bytes(o['out'])) + (" far=4g" if i % 9 == 4 else " far=2g"))
                g.append(enc_line(f"e{i}far", mode, shapes[i], datas[i], keep=0) + (" far=2g" if i % 9 == 4 else " far=4g"))
            if i % 9 == 0 and not shapes[i].get('alias'):
                # separate buffers that touch: plaintext right behind the packet, packet right behind the plaintext
                g.append(dec_line(f"d{i}adj1", mode, shapes[i], datas[i], bytes(o['out'])) + " adj=1")
                g.append(dec_line(f"d{i}adj2", mode, shapes[i], datas[i], bytes(o['out'])) + " adj=2")
        groups.append(g)
    faults = [e for e in ev1 if e.get('e') == 'Fault']
    return groups, faults


def check_roundtrip(chk, mode):
    pid = chk.pid
    exe = build_driver(chk.wd, 'prod')
    chk.cov['builds'].append('prod')
    anchor_oracle(chk, [f'TinyJAMBU-{v}' + ('-SIV' if mode == 'siv' else '') for v in (128, 192, 256)], 0 if chk.thorough else 24)
    shapes = tlc_plan(chk.wd, 'Plan_Cipher', dict(FAMILY='roundtrip', TIER=chk.tier))
    shapes.sort(key=lambda s: json.dumps(s, sort_keys=True))
    chk.log(f"TLC expanded {len(shapes)} round-trip shapes")
    if mode == 'siv' and not chk.thorough:
        # SIV costs two passes per call: the quick tier keeps every other shape of the dense (adlen, mlen) window
        shapes = [s for s in shapes if s['mlen'] > 40 or s['adlen'] > 20 or s['oc'] or s['om'] or s['pl'] == 's'
                  or (s['adlen'] + s['mlen'] + s['alias'] + s['v'] // 64) % 2 == 0]
    if mode == 'aead':
        shapes += tlc_plan(chk.wd, 'Plan_Cipher', dict(FAMILY='xlong', TIER=chk.tier))
    chk.cov['plan_shapes'] = len(shapes)
    groups, faults = roundtrip_plan(chk, exe, mode, shapes)
    execs, lines = run_groups(chk, exe, groups)
    if True:
        # the same plan on other build configurations; only events that differ from prod's are new to TLC
        base = {json.dumps({k: v for k, v in e.items()}, sort_keys=True) for ex in execs for e in ex}
        for cfg in (('dbg', 'alt', 'alt3', 'shared', 'o2', 'os', 'portable', 'uchar') if chk.thorough else ('portable', 'uchar', 'os')):
            exe2 = build_driver(chk.wd, cfg)
            if exe2 is None:
                continue
            chk.cov['builds'].append(cfg)
            ex2, _ = run_groups(chk, exe2, groups)
            n_new = 0
            for ex in ex2:
                if any(json.dumps(e, sort_keys=True) not in base for e in ex):
                    for e in ex:
                        e['id'] = f"{cfg}:{e.get('id')}"
                    execs.append(ex)
                    groups.append(None)
                    n_new += 1
            chk.log(f"build {cfg}: {sum(len(x) for x in ex2)} events, {n_new} executions differ from prod")
    gl = groups

    def plan_by_exec(xi):
        g = gl[xi] if xi < len(gl) else None
        return ([f"reset id=x{xi}"] + g) if g else None
    judge(chk, exe, execs, plan_by_exec)
    for ex in execs[:2]:
        for ev in ex[1:3]:
            chk.sample(ev)
    return exe, shapes


def check_C01(chk):
    check_roundtrip(chk, 'aead')
    chk.finish(
        rule="shape space expanded by TLC from Plan_Cipher (all (adlen,mlen) of the window x 3 key sizes x in-place/separate, "
             "long messages, all alignments 0..7 in both guard-page placements); each shape instantiated with seeded data "
             "(random / all >= 0x80 / 0xFF / counting; random, zero, all-ones, single-bit keys); every Enc and Dec event "
             "validated by TLC against the bit-level TinyJAMBU specification plus the round-trip history rule; "
             "distinct = distinct events (inputs+outputs)",
        assumptions=["TLC evaluates concrete inputs: the input space is sampled through the shape space, not exhausted",
                     "only gcc 12 and clang 14 are available for the compiler dimension (thorough tier)"])


def check_C08(chk):
    exe, shapes = check_roundtrip(chk, 'siv')
    tamper_part(chk, exe, 'siv')
    chk.finish(
        rule="as C01 for SIV (TJSiv oracle) plus the tamper classes of C03 judged by the interpreted SIV decryption "
             "(body/tag/AD/nonce/key bits, truncation, extension, boundary shift, clen 0..7)",
        assumptions=["TLC evaluates concrete inputs: the input space is sampled through the shape space, not exhausted"])


# ----------------------------------------------------------------------------- C02 bit-exactness
def check_C02(chk):
    exe = build_driver(chk.wd, 'prod')
    anchor_oracle(chk, ['TinyJAMBU-128', 'TinyJAMBU-192', 'TinyJAMBU-256'], 0 if chk.thorough else 64)
    # mode level: the AEAD mode as a machine over permutation calls (MC_Mode refinement + every logged call of the real code)
    import fam_mode
    fam_mode.mode_stage(chk, 'aead')
    shapes = tlc_plan(chk.wd, 'Plan_Cipher', dict(FAMILY='roundtrip', TIER=chk.tier))
    shapes.sort(key=lambda s: json.dumps(s, sort_keys=True))
    r = Rng(chk.seed ^ 0xC02)
    lines = []
    # (1) the shape space, with emphasis on many keys and nonces
    for i, sh in enumerate(shapes):
        sh = dict(sh, kcls=r.choice(['r', 'r', 'r', 'b', 'f']))
        far = ''
        if i % 13 in (5, 9) and not sh.get('alias') and sh['mlen'] < 5000:
            far = ' far=2g' if i % 13 == 5 else ' far=4g'        # plaintext and ciphertext buffers 2 GiB / 4 GiB apart
        lines.append(enc_line(f"s{i}", 'aead', sh, shape_data(r, sh), keep=0) + far)
    # (2) key schedule: every single-bit key and nonce for each variant (exercises each key word position of the
    #     128/192/256 schedules across the 5-, 8-, 9-, 10-round calls)
    for v in (128, 192, 256):
        kb = KLEN[v]
        bits = range(8 * kb) if chk.thorough else r.sample(range(8 * kb), 48)
        for b in bits:
            k = bytearray(kb)
            k[b // 8] |= 1 << (b % 8)
            sh = dict(v=v)
            lines.append(enc_line(f"kb{v}-{b}", 'aead', sh, dict(k=bytes(k), n=r.bytes(12), ad=r.bytes(b % 7), m=r.bytes(b % 9, 'h')), keep=0))
        for b in (range(96) if chk.thorough else r.sample(range(96), 24)):
            n = bytearray(12)
            n[b // 8] |= 1 << (b % 8)
            lines.append(enc_line(f"nb{v}-{b}", 'aead', dict(v=v), dict(k=r.bytes(kb), n=bytes(n), ad=b'', m=r.bytes(5)), keep=0))
    cfgs = ['prod', 'alt3', 'shared', 'dbg', 'portable', 'uchar', 'os'] + (['alt', 'alt0', 'o1', 'o2'] if chk.thorough else [])
    groups = chunks(lines, 24)
    execs, seen = [], set()
    plans = []
    for cfg in cfgs:
        exe2 = exe if cfg == 'prod' else build_driver(chk.wd, cfg)
        if exe2 is None:
            continue
        chk.cov['builds'].append(cfg)
        ex2, _ = run_groups(chk, exe2, groups)
        new = 0
        for gi, ex in enumerate(ex2):
            key = json.dumps(ex, sort_keys=True)
            if key in seen:
                continue
            seen.add(key)
            if cfg != 'prod':
                for e in ex:
                    e['id'] = f"{cfg}:{e.get('id')}"
            execs.append(ex)
            plans.append((cfg, groups[gi] if gi < len(groups) else None))
            new += 1
        chk.log(f"build {cfg}: {len(ex2)} executions, {new} not identical to an earlier build's")
    exes = {}

    def plan_by_exec(xi):
        cfg, g = plans[xi]
        return ([f"reset id=x{xi}"] + g) if (g and cfg == 'prod') else None
    # the repository's own KAT program, traced: every call it makes is judged by TLC (not only its final comparison)
    kx = kat_program_traces(chk, ['TinyJAMBU-128', 'TinyJAMBU-192', 'TinyJAMBU-256'], 1.0 if chk.thorough else 0.03)
    execs += kx
    plans += [('kat', None)] * len(kx)
    judge(chk, exe, execs, plan_by_exec)
    chk.cov['plan_shapes'] = len(lines)
    for ev in execs[0][1:4]:
        chk.sample(ev)
    chk.finish(
        rule="every Enc event (shape space of C01 with many keys/nonces, every single-bit key and nonce position, high-bit data, "
             "lengths to 1027/4099) validated by TLC against the bit-serial TinyJAMBU v2 specification, itself anchored on the "
             "NIST KAT vectors; the plan is executed on every build configuration (gcc/clang, -O0..-O3, shared and static) and "
             "executions whose events are byte-identical to an earlier build's are judged once; the repository's own kat "
             "program is rebuilt against a recording shim and a seeded sample (thorough: all) of the calls it makes is "
             "validated by TLC as well",
        assumptions=["the stored KAT vectors (spec/anchors, copied from the pinned test/kat files) are the NIST/reference answers",
                     "TLC evaluates concrete inputs: the input space is sampled, not exhausted"])


# ----------------------------------------------------------------------------- C03 accept-iff / tamper
def flip(b, bit):
    b = bytearray(b)
    b[bit // 8] ^= 1 << (bit % 8)
    return bytes(b)


def tamper_part(chk, exe, mode):
    shapes = tlc_plan(chk.wd, 'Plan_Cipher', dict(FAMILY='tamper', TIER=chk.tier))
    shapes.sort(key=lambda s: json.dumps(s, sort_keys=True))
    r = Rng(chk.seed ^ 0x7A3 ^ (1 if mode == 'siv' else 0))
    # one valid packet per (v, adlen, mlen, alias)
    base = {}
    for sh in shapes:
        key = (sh['v'], sh['adlen'], sh['mlen'])
        if key not in base:
            base[key] = shape_data(r, dict(sh, kcls='r'))
    keys = sorted(base)
    ev1, _ = run_driver(exe, [enc_line(f"b{i}", mode, dict(v=k[0]), base[k], keep=0) for i, k in enumerate(keys)])
    pk = {}
    for i, k in enumerate(keys):
        o = [e for e in ev1 if e.get('id') == f"b{i}" and e.get('e') == 'Enc']
        if o:
            pk[k] = bytes(o[0]['out'])
    groups = []
    n_every = 0
    for sh in shapes:
        key = (sh['v'], sh['adlen'], sh['mlen'])
        if key not in pk:
            continue
        d, c, t = base[key], pk[key], sh['tam']
        mlen, alen = sh['mlen'], sh['adlen']
        long_ = mlen > 100 or alen > 100
        if long_ and (sh['alias'] or (not chk.thorough and t in (4, 5, 7))):
            continue                         # long packets: separate buffers, the tamper classes that involve the length
        g = []
        sid = f"{sh['v']}-{alen}-{mlen}-{sh['alias']}-t{t}"
        budget = 8 if (sh['alias'] or (not chk.thorough and mlen > 13) or long_ or mlen > 64 or alen > 64) else 10 ** 6

        def bits(nbits):
            return list(range(nbits)) if nbits <= budget else r.sample(range(nbits), 3 if long_ else 8)
        if t == 1:
            for b in bits(8 * mlen):
                g.append(dec_line(f"{sid}-body{b}", mode, sh, d, flip(c, b)))
        elif t == 2:
            if mode == 'siv':
                for b in (range(64) if (mlen in (4, 13) and not sh['alias']) else r.sample(range(64), 2 if long_ else 6)):
                    g.append(dec_line(f"{sid}-tag{b}", mode, sh, d, flip(c, 8 * mlen + b)))
            else:
                g.append(f"packet id={sid}-pk k={hx(d['k'])} n={hx(d['n'])} ad={hx(d['ad'])} body={hx(c[:mlen])}")
                for b in range(64):
                    g.append(dec_line(f"{sid}-tag{b}", mode, sh, d, flip(c, 8 * mlen + b), ev='dectag'))
                g.append(dec_line(f"{sid}-tagok", mode, sh, d, c, ev='dectag'))
                if mlen in (0, 4, 13) and not sh['alias']:
                    # every single-byte difference, and differences that are equal in several positions
                    for pos in range(8):
                        for dv in (range(1, 256) if (chk.thorough or alen == 1) else r.sample(range(1, 256), 24)):
                            cc = bytearray(c); cc[mlen + pos] ^= dv
                            g.append(dec_line(f"{sid}-tb{pos}-{dv}", mode, sh, d, bytes(cc), ev='dectag'))
                    for p1, p2 in itertools.combinations(range(8), 2):
                        for dv in (1, 0x80, 0xFF, r.randint(1, 255)):
                            cc = bytearray(c); cc[mlen + p1] ^= dv; cc[mlen + p2] ^= dv
                            g.append(dec_line(f"{sid}-tp{p1}{p2}-{dv}", mode, sh, d, bytes(cc), ev='dectag'))
                    for dv in (1, 0x80, 0xFF):
                        cc = bytearray(c)
                        for p in range(8):
                            cc[mlen + p] ^= dv
                        g.append(dec_line(f"{sid}-tall-{dv}", mode, sh, d, bytes(cc), ev='dectag'))
                        cc = bytearray(c)
                        for p in range(4):
                            cc[mlen + p] ^= dv; cc[mlen + 4 + p] ^= dv ^ 0
                        g.append(dec_line(f"{sid}-thalves-{dv}", mode, sh, d, bytes(cc), ev='dectag'))
        elif t == 3:
            for b in bits(8 * alen):
                g.append(dec_line(f"{sid}-ad{b}", mode, sh, dict(d, ad=flip(d['ad'], b)), c))
        elif t == 4:
            for b in (range(96) if (mlen == 4 and alen == 0 and not sh['alias']) else r.sample(range(96), 5)):
                g.append(dec_line(f"{sid}-n{b}", mode, sh, dict(d, n=flip(d['n'], b)), c))
        elif t == 5:
            nb = 8 * KLEN[sh['v']]
            for b in (range(nb) if (mlen == 4 and alen == 0 and not sh['alias'] and chk.thorough) else r.sample(range(nb), 5)):
                g.append(dec_line(f"{sid}-k{b}", mode, sh, dict(d, k=flip(d['k'], b)), c))
        elif t == 6:
            g.append(dec_line(f"{sid}-trunc-end", mode, sh, d, c[:-1]))
            g.append(dec_line(f"{sid}-trunc-start", mode, sh, d, c[1:]))
            if mlen >= 4:
                g.append(dec_line(f"{sid}-trunc-word", mode, sh, d, c[:mlen - 4] + c[mlen:]))
        elif t == 7:
            g.append(dec_line(f"{sid}-ext-end", mode, sh, d, c + r.bytes(1)))
            g.append(dec_line(f"{sid}-ext-zero", mode, sh, d, c[:mlen] + b'\0' + c[mlen:]))
            g.append(dec_line(f"{sid}-ext-start", mode, sh, d, r.bytes(1) + c))
        elif t == 8:
            if alen >= 1:
                g.append(dec_line(f"{sid}-shift-ad2m", mode, sh, dict(d, ad=d['ad'][:-1]), d['ad'][-1:] + c))
            if mlen >= 1:
                g.append(dec_line(f"{sid}-shift-m2ad", mode, sh, dict(d, ad=d['ad'] + c[:1]), c[1:]))
            g.append(dec_line(f"{sid}-valid", mode, sh, d, c))
            if not sh['alias']:
                g.append(dec_line(f"{sid}-valid-adj1", mode, sh, d, c) + " adj=1")
                g.append(dec_line(f"{sid}-valid-adj2", mode, sh, d, c) + " adj=2")
                g.append(dec_line(f"{sid}-bad-adj1", mode, sh, d, flip(c, 8 * mlen + 9)) + " adj=1")
                # arguments kept in one arena, touching the output: [ad][output], [output][nonce], ad == output with adlen 0
                for lay in (2, 3, 4):
                    g.append(dec_line(f"{sid}-valid-lay{lay}", mode, sh, d, c) + f" lay={lay}")
                    g.append(dec_line(f"{sid}-bad-lay{lay}", mode, sh, d, flip(c, 8 * mlen + 3 + lay)) + f" lay={lay}")
            # the datagram layout [nonce][ad][packet], decrypted in place
            g.append(dec_line(f"{sid}-valid-lay1", mode, sh, d, c) + " lay=1")
            g.append(dec_line(f"{sid}-bad-lay1", mode, sh, d, flip(c, 8 * mlen + 17)) + " lay=1")
            if mlen >= 1:
                g.append(dec_line(f"{sid}-badbody-lay1", mode, sh, d, flip(c, 0)) + " lay=1")
        elif t == 9:
            for cl in range(8):
                g.append(dec_line(f"{sid}-clen{cl}", mode, sh, d, c[:cl] if cl <= len(c) else c + bytes(cl - len(c)),
                                  pf=r.choice([0, 255, 165])))
        if g:
            groups.append(g)
    execs, lines = run_groups(chk, exe, groups)

    def plan_by_exec(xi):
        return ([f"reset id=x{xi}"] + groups[xi]) if xi < len(groups) else None
    res = judge(chk, exe, execs, plan_by_exec)
    nrej = sum(1 for ex in execs for e in ex if e.get('e') in ('Dec', 'DecTag') and e.get('res') == -1)
    nacc = sum(1 for ex in execs for e in ex if e.get('e') in ('Dec', 'DecTag') and e.get('res') == 0)
    chk.cov['tamper_events_rejected_by_impl'] = chk.cov.get('tamper_events_rejected_by_impl', 0) + nrej
    chk.cov['untampered_accepted_by_impl'] = chk.cov.get('untampered_accepted_by_impl', 0) + nacc
    if (nrej == 0 or nacc == 0) and not chk.violations:
        raise MachineryError("vacuous tamper run: no rejected or no accepted packet")
    for ex in execs[:1]:
        for ev in ex[1:3]:
            chk.sample(ev)


def check_C03(chk):
    exe = build_driver(chk.wd, 'prod')
    chk.cov['builds'].append('prod')
    anchor_oracle(chk, ['TinyJAMBU-128', 'TinyJAMBU-192', 'TinyJAMBU-256'], 12)
    # (A) design level: the byte-serial OR-accumulate/fold algorithm equals the accept-iff-equal specification
    r = tlc_model(chk.wd, 'MC_CheckTag', cfg='MC_CheckTag_thorough' if chk.thorough else 'MC_CheckTag')
    chk.add_model('MC_CheckTag', r)
    # (B) every difference pattern of the model replayed on the real tinyjambu_aead_check_tag
    rr = Rng(chk.seed ^ 0xC03)
    vals = [0, 1, 0x80, 0xFF] + ([0x55] if chk.thorough else [])
    lines = []
    t1 = rr.bytes(8)
    for n, pat in enumerate(itertools.product(vals, repeat=8)):
        if n % 4096 == 0:
            t1 = rr.bytes(8)
        t2 = bytes(a ^ b for a, b in zip(t1, pat))
        ptl = (0, 1, 5, 16)[n % 4]
        lines.append(f"checktag id=ct{n} pt={hx(rr.bytes(ptl, 'h'))} t1={hx(t1)} t2={hx(t2)}")
    for pos in range(8):
        for dv in range(1, 256):
            t1 = rr.bytes(8)
            t2 = bytearray(t1); t2[pos] ^= dv
            lines.append(f"checktag id=cb{pos}-{dv} pt={hx(rr.bytes(3))} t1={hx(t1)} t2={hx(bytes(t2))}")
    groups = chunks(lines, 2000)
    execs, _ = run_groups(chk, exe, groups)
    judge(chk, exe, execs, lambda xi: [f"reset id=x{xi}"] + groups[xi], cost=lambda e: 1)
    chk.sample(execs[0][1])
    # (C) tampered packets through the real decrypt functions
    tamper_part(chk, exe, 'aead')
    # (D) packets above 2^18 bytes: genuine ones are accepted, a flip far into the body, or a short genuine packet with
    #     2^18 bytes of junk put between body and tag, is rejected (one event per execution: ~80 s of TLC each, in parallel)
    xl = []
    for sh in tlc_plan(chk.wd, 'Plan_Cipher', dict(FAMILY='xlong', TIER='quick')):
        d = shape_data(rr, sh)
        ev1, _ = run_driver(exe, [enc_line("xe", 'aead', sh, d)], timeout=600)
        c = next((bytes(e['out']) for e in ev1 if e.get('e') == 'Enc'), None)
        if c is None:
            continue
        sid = f"xl{sh['v']}"
        xl.append([dec_line(f"{sid}-valid", 'aead', sh, d, c)])
        xl.append([dec_line(f"{sid}-farflip", 'aead', sh, d, flip(c, 8 * (sh['mlen'] - 77) + 3))])
        short = dict(d, m=d['m'][:23])
        ev2, _ = run_driver(exe, [enc_line("xs", 'aead', sh, short)], timeout=600)
        cs = next((bytes(e['out']) for e in ev2 if e.get('e') == 'Enc'), None)
        if cs is not None:
            xl.append([dec_line(f"{sid}-junk", 'aead', sh, short, cs[:23] + rr.bytes(262144) + cs[23:])])
    xexecs, _ = run_groups(chk, exe, xl)
    judge(chk, exe, xexecs, lambda xi: [f"reset id=x{xi}"] + xl[xi])
    chk.cov['packets_above_2^18_bytes'] = len(xl)
    if chk.thorough:
        # associated data of 4 GiB + 5 bytes must not be taken for 5 bytes (about a minute each, run side by side)
        huge = [f"enchuge id=hugead-{v}-{n} mode=aead v={v} adlen={n}" for v in (128, 192, 256) for n in (5, (1 << 32) + 5)]
        with ThreadPoolExecutor(6) as ex:
            hres = list(ex.map(lambda ln: run_driver(exe, [ln], timeout=3000)[0], huge))
        hx_ = [[{"e": "Reset", "id": "huge"}] + [e for r_ in hres for e in r_]]
        judge(chk, exe, hx_, lambda xi: None, cost=lambda e: 1)
        chk.cov['huge_ad_packets'] = len(huge)
    chk.finish(
        rule="MC_CheckTag: TLC exhaustive over difference patterns (every subset of positions x values, every single-byte "
             "difference, the fold for all 256 accumulator values) shows the byte-serial algorithm = accept-iff-equal; every "
             "pattern is replayed on the real tinyjambu_aead_check_tag; tampered packets (every body/AD bit of short packets, "
             "every tag bit, every single tag byte value, equal differences in two/all tag positions, nonce, key, truncation, "
             "extension, AD/message boundary shift, clen 0..7) go through the real decrypt functions and are judged by the "
             "interpreted AeadDec (tag tampers: by equality with the tag TLC computed for that packet)",
        assumptions=["no accepting forgery is searched for: the 2^-64 clause is inherent to a 64-bit tag"])


# ----------------------------------------------------------------------------- C04 no unauthenticated plaintext
def check_C04(chk):
    exe = build_driver(chk.wd, 'prod')
    chk.cov['builds'].append('prod')
    anchor_oracle(chk, ['TinyJAMBU-128', 'TinyJAMBU-256-SIV'], 8)
    shapes = tlc_plan(chk.wd, 'Plan_Cipher', dict(FAMILY='big', TIER=chk.tier))
    shapes.sort(key=lambda s: json.dumps(s, sort_keys=True))
    chk.cov['plan_shapes'] = len(shapes)
    r = Rng(chk.seed ^ 0xC04)
    lines = []
    for i, sh in enumerate(shapes):
        for mode in ('aead', 'siv'):
            pos = r.choice([0, sh['mlen'] // 2, max(0, sh['mlen'] - 1), r.randint(0, max(0, sh['mlen'] - 1))])
            lines.append(f"decbig id=big{i}-{mode} mode={mode} v={sh['v']} seed={r.randint(1, 2**40)} adlen={sh['adlen']} "
                         f"mlen={sh['mlen']} tamper={sh['tam']} pos={pos} alias={sh['alias']} pf={sh['pf']} cls={r.choice('rhf')}")
    groups = chunks(lines, 400)
    execs, _ = run_groups(chk, exe, groups)
    # the same packets on other build configurations (identical executions are judged once)
    seen = {json.dumps(ex, sort_keys=True) for ex in execs}
    ngroups = len(groups)
    for cfg in (('ndebug', 'uchar', 'portable', 'alt3') + (('dbg', 'os', 'shared', 'alt') if chk.thorough else ())):
        exe2 = build_driver(chk.wd, cfg)
        if exe2 is None:
            continue
        chk.cov['builds'].append(cfg)
        ex2, _ = run_groups(chk, exe2, groups[:ngroups])
        for ex in ex2:
            key = json.dumps(ex, sort_keys=True)
            if key not in seen:
                seen.add(key)
                for e in ex:
                    e['id'] = f"{cfg}:{e.get('id')}"
                execs.append(ex)
                groups.append(None)
    if chk.thorough:
        # a rejected packet longer than 4 GiB (the length does not fit 32 bits), decrypted in place: every byte must be zero
        # (production build only: about 90 s per packet, the two run side by side)
        huge = [f"dechuge id=huge4g-{mode} mode={mode} v=128 mlen={(1 << 32) + 16 + 3 * j}" for j, mode in enumerate(('aead', 'siv'))]
        with ThreadPoolExecutor(2) as tp:
            hres = list(tp.map(lambda ln: run_driver(exe, [ln], timeout=1500)[0], huge))
        execs.append([{"e": "Reset", "id": "huge4g"}] + [e for r_ in hres for e in r_])
        groups.append(None)
        chk.cov['packets_above_4GiB'] = len(huge)
    judge(chk, exe, execs, lambda xi: ([f"reset id=x{xi}"] + groups[xi]) if groups[xi] else None, cost=lambda e: 1)
    groups = groups[:ngroups]
    nrej = sum(1 for ex in execs for e in ex if e.get('e') == 'DecBig' and e.get('res') == -1)
    chk.cov['rejected_packets'] = nrej
    if nrej == 0:
        raise MachineryError("vacuous: no rejected packet in the C04 run")
    chk.sample(execs[0][1]); chk.sample(execs[-1][-1])
    # fully logged, interpreted: short rejected packets with several pre-fills (verdict and zeroing both from the spec)
    sh2 = [s for s in tlc_plan(chk.wd, 'Plan_Cipher', dict(FAMILY='tamper', TIER='quick')) if s['tam'] in (1, 2) and s['mlen'] > 0]
    sh2.sort(key=lambda s: json.dumps(s, sort_keys=True))
    groups2 = []
    for mode in ('aead', 'siv'):
        datas = [shape_data(r, s) for s in sh2]          # key classes of the plan: random, all-zero, all-ones, single bit, zero words
        ev1, _ = run_driver(exe, [enc_line(f"q{i}", mode, dict(v=s['v']), d, keep=0) for i, (s, d) in enumerate(zip(sh2, datas))])
        outs = {e['id']: bytes(e['out']) for e in ev1 if e.get('e') == 'Enc'}
        g = []
        for i, (s, d) in enumerate(zip(sh2, datas)):
            c = outs.get(f"q{i}")
            if c is None:
                continue
            bit = r.randint(0, 8 * s['mlen'] - 1) if s['tam'] == 1 else 8 * s['mlen'] + r.randint(0, 63)
            g.append(dec_line(f"z{mode}{i}", mode, s, d, flip(c, bit), pf=r.choice([0, 255, 165, 1])))
            if i % 3 == 1:
                # the genuine packet under the same (possibly degenerate: all-ones, all-zero, single-bit) key: anything but
                # acceptance would be a rejection that leaves the plaintext in the buffer
                g.append(dec_line(f"g{mode}{i}", mode, s, d, c, pf=r.choice([0, 255, 165])))
            # the same rejected packet with the caller's buffers touching each other (see tjdrive.c: lay=, adj=)
            if i % 2 == 0:
                g.append(dec_line(f"z{mode}{i}lay", mode, s, d, flip(c, bit), pf=r.choice([255, 165, 1])) + f" lay={(i // 2) % 4 + 1}")
            if i % 3 == 0 and not s.get('alias'):
                g.append(dec_line(f"z{mode}{i}adj", mode, s, d, flip(c, bit), pf=r.choice([255, 165, 1])) + f" adj={(i // 3) % 2 + 1}")
        groups2.extend(chunks(g, 16))
    execs2, _ = run_groups(chk, exe, groups2)
    judge(chk, exe, execs2, lambda xi: [f"reset id=x{xi}"] + groups2[xi])
    chk.finish(
        rule="DecBig: for every length of the plan (0..40, block/page boundaries, 64 KiB, 1 MiB in thorough) x 6 ciphers x "
             "in-place/separate x pre-fill {00,FF,A5} x tamper {none, body, tag, AD, nonce, key} the driver projects the whole "
             "plaintext region (non-zero count, equality with the plaintext) and TLC applies CheckTag's rule: rejected => all "
             "zero, accepted => exactly the plaintext, accept iff untampered; short packets additionally fully logged and "
             "judged by the interpreted specification",
        assumptions=["for projected (long) packets the accept/reject verdict is expected from the construction of the packet "
                     "(a tampered packet is accepted with probability 2^-64); the zeroing rule itself is unconditional"])


# ----------------------------------------------------------------------------- C09 SIV construction and misuse resistance
def check_C09(chk):
    exe = build_driver(chk.wd, 'prod')
    chk.cov['builds'].append('prod')
    anchor_oracle(chk, ['TinyJAMBU-128-SIV', 'TinyJAMBU-192-SIV', 'TinyJAMBU-256-SIV'], 0 if chk.thorough else 48)
    # mode level: the two passes of SIV as a machine over permutation calls
    import fam_mode
    fam_mode.mode_stage(chk, 'siv')
    fams = tlc_plan(chk.wd, 'Plan_Cipher', dict(FAMILY='sivfam', TIER=chk.tier))
    fams.sort(key=lambda s: json.dumps(s, sort_keys=True))
    chk.cov['plan_shapes'] = len(fams)
    r = Rng(chk.seed ^ 0xC09)
    groups = []
    for fi, f in enumerate(fams):
        for mode in ('siv', 'aead'):
            d = shape_data(r, f)
            msgs = [(d['ad'], d['m'])]
            mb, ab = 8 * f['mlen'], 8 * f['adlen']
            nb = f['nbits'] if mode == 'siv' else 3
            for b in (range(mb) if mb <= nb else r.sample(range(mb), nb)):
                msgs.append((d['ad'], flip(d['m'], b)))
            for b in (range(ab) if ab <= nb else r.sample(range(ab), nb)):
                msgs.append((flip(d['ad'], b), d['m']))
            if f['mlen'] >= 1:
                msgs.append((d['ad'], flip(d['m'], mb - 1 - r.randint(0, 7))))      # last byte
                msgs.append((d['ad'], flip(d['m'], r.randint(0, 7))))               # first byte
            if f['adlen'] >= 1:
                msgs.append((flip(d['ad'], ab - 1 - r.randint(0, 7)), d['m']))
            if f['mlen'] >= 1:
                msgs.append((d['ad'], d['m'][:-1]))                 # prefix
                msgs.append((d['ad'], d['m'] + r.bytes(1)))          # extension
            msgs.append((d['ad'], d['m']))                           # exact repeat
            g = []
            for mi, (ad, m) in enumerate(msgs):
                g.append(enc_line(f"f{fi}-{mode}-{mi}", mode, dict(v=f['v'], alias=mi % 2), dict(d, ad=ad, m=m), keep=1)
                         + (" again=1" if mi in (0, 2) else ""))       # ... and once more into the buffer that holds the first result's tag
            groups.append(g)
    execs, _ = run_groups(chk, exe, groups)
    base = {json.dumps(ex, sort_keys=True) for ex in execs}
    for cfg in (('portable', 'uchar', 'os', 'alt3', 'dbg', 'shared') if chk.thorough else ('portable', 'uchar')):
        exe2 = build_driver(chk.wd, cfg)
        if exe2 is None:
            continue
        chk.cov['builds'].append(cfg)
        ex2, _ = run_groups(chk, exe2, groups[:len(execs)])
        for gi, ex in enumerate(ex2):
            if json.dumps(ex, sort_keys=True) not in base:
                for e in ex:
                    e['id'] = f"{cfg}:{e.get('id')}"
                execs.append(ex)
                groups.append([])
    kx = kat_program_traces(chk, ['TinyJAMBU-128-SIV', 'TinyJAMBU-192-SIV', 'TinyJAMBU-256-SIV'], 1.0 if chk.thorough else 0.03)
    execs += kx
    groups += [[] for _ in kx]
    # vacuity: the AEAD control group must actually contain pairs to which the leak relation applies
    ctl = sum(1 for ex in execs for e in ex if e.get('e') == 'Enc' and e.get('mode') == 'aead' and len(e['m']) >= 4)
    if ctl < 4:
        raise MachineryError("vacuous: AEAD control group of C09 is empty")
    chk.cov['aead_control_events'] = ctl
    judge(chk, exe, execs, lambda xi: ([f"reset id=x{xi}"] + groups[xi]) if groups[xi] else None,
          cost=lambda e: steps_cost(e) + 200 * 30)
    for ev in execs[0][1:3]:
        chk.sample(ev)
    chk.finish(
        rule="every SIV Enc event validated by TLC against the documented two-pass construction (tag = MAC with nonce domain "
             "0x90, body = plaintext xor keystream(key, nonce[0..3], tag)); per (key, nonce) families of messages differing in "
             "single bits of AD or plaintext, prefixes, extensions and exact repeats; the trace spec's history rules check "
             "determinism, distinct tags, and (bodies >= 8 bytes) XOR of bodies /= XOR of plaintexts; an AEAD control group "
             "must show the leak the SIV rule excludes",
        assumptions=["relational rule applied to common prefixes >= 8 bytes (coincidence 2^-64 per pair)"])


# ----------------------------------------------------------------------------- the repository's own test programs, traced
KAT_ALGOS = {'TinyJAMBU-128': 'TinyJAMBU-128.txt', 'TinyJAMBU-192': 'TinyJAMBU-192.txt', 'TinyJAMBU-256': 'TinyJAMBU-256.txt',
             'TinyJAMBU-128-SIV': 'TinyJAMBU-128-SIV.txt', 'TinyJAMBU-192-SIV': 'TinyJAMBU-192-SIV.txt',
             'TinyJAMBU-256-SIV': 'TinyJAMBU-256-SIV.txt', 'TinyJAMBU-Hash': 'TinyJAMBU-HASH.txt', 'TinyJAMBU-HMAC': 'TinyJAMBU-HMAC.txt'}


def kat_program_traces(chk, algos, fraction):
    """Build test/kat/kat from the working tree against a recording shim, run it as ctest does, and return the
    recorded executions (a seeded sample of `fraction` of them) in the trace format of TV_Cipher / TV_Hash."""
    od, objs = build_lib(chk.wd, 'prod')
    kd = os.path.join(REPO, 'test', 'kat')
    srcs = ' '.join(os.path.join(kd, f) for f in ('algorithms.c', 'internal-blake2s.c', 'internal-chachapoly.c', 'kat.c', 'timing.c'))
    r = Rng(chk.seed ^ 0x4A7)
    execs = []
    for algo in algos:
        if 'HMAC' in algo:
            defs, wraps = '-DKATSHIM_HMAC', ['tinyjambu_hmac', 'tinyjambu_hmac_init', 'tinyjambu_hmac_update', 'tinyjambu_hmac_finalize']
        elif 'Hash' in algo:
            defs, wraps = '-DKATSHIM_HASH', ['tinyjambu_hash', 'tinyjambu_hash_init', 'tinyjambu_hash_update', 'tinyjambu_hash_finalize']
        else:
            defs = '-DKATSHIM_CIPHERS'
            wraps = [f'tinyjambu_{v}_{m}_{d}' for v in (128, 192, 256) for m in ('aead', 'siv') for d in ('encrypt', 'decrypt')]
        exe = os.path.join(od, 'kat-' + ('hmac' if 'HMAC' in algo else 'hash' if 'Hash' in algo else 'cipher'))
        if not os.path.exists(exe):
            sh(f"gcc -O2 -w {defs} -I{REPO}/src -I{od} -I{kd} {srcs} {VERIF}/harness/katshim.c {' '.join(objs)} "
               f"{' '.join('-Wl,--wrap=' + w for w in wraps)} -lrt -o {exe}", check=True)
        log = os.path.join(chk.wd, f'katlog-{algo}.ndjson')
        env = dict(os.environ); env['TJ_KATLOG'] = log
        p = subprocess.run(f"{exe} {algo} - < {kd}/{KAT_ALGOS[algo]}", shell=True, env=env, stdout=subprocess.PIPE, stderr=subprocess.STDOUT,
                           text=True, timeout=600)
        evs = [json.loads(x) for x in open(log)] if os.path.exists(log) else []
        if p.returncode != 0 or not evs:
            raise MachineryError(f"the repository's kat program failed for {algo} (rc {p.returncode}):\n{p.stdout[-800:]}")
        for e in evs:
            e['id'] = f"{algo}:{e['id']}"
        # group: stateless events singly; streamed object histories from init to finalize
        units, cur = [], {}
        for e in evs:
            if e['e'] in ('HInit', 'HmInit'):
                cur[e['obj']] = [e]
            elif e['e'] in ('HUpdate', 'HmUpdate') and e['obj'] in cur:
                cur[e['obj']].append(e)
            elif e['e'] in ('HFinal', 'HmFinal') and e['obj'] in cur:
                units.append(cur.pop(e['obj']) + [e])
            else:
                units.append([e])
        chk.cov.setdefault('kat_program_events', {})[algo] = len(evs)
        keep = units if fraction >= 1 else [u for u in units if r.r.random() < fraction]
        for i in range(0, len(keep), 30):
            execs.append([{"e": "Reset", "id": f"{algo}-x{i}"}] + [e for u in keep[i:i + 30] for e in u])
    return execs
