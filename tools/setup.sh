#!/bin/bash
# Offline setup: nothing is downloaded or cached; every check rebuilds what it needs from /repo at run time.
# This only verifies that the tools the checks use are present and that every specification module parses.
set -e
cd "$(dirname "$0")/.."
for t in java gcc clang python3 ar nm objdump valgrind; do command -v $t >/dev/null || { echo "missing tool: $t"; exit 1; }; done
test -f /opt/veriftools/tla/tla2tools.jar
tmp=$(mktemp -d); trap 'rm -rf "$tmp"' EXIT
cp -r spec "$tmp/spec"; cp spec/isa/*.tla "$tmp/spec/" 2>/dev/null || true; rm -rf "$tmp/spec/isa"; cd "$tmp/spec"
fail=0
for f in *.tla isa/*.tla; do
  [ -f "$f" ] || continue
  d=$(dirname "$f"); b=$(basename "$f")
  if ! (cd "$d" && java -cp /opt/veriftools/tla/tla2tools.jar:/opt/veriftools/tla/CommunityModules-deps.jar tla2sany.SANY "$b" 2>&1 | grep -q "Semantic processing of module ${b%.tla}"); then echo "does not parse: $f"; fail=1; fi
  if (cd "$d" && java -cp /opt/veriftools/tla/tla2tools.jar:/opt/veriftools/tla/CommunityModules-deps.jar tla2sany.SANY "$b" 2>&1 | grep -qi "error"); then echo "SANY error in $f"; fail=1; fi
done
[ $fail = 0 ] && echo "setup ok: all specification modules parse"
exit $fail
