"""Shared machinery of the TinyJAMBU TLA+ conformance checks.

  build_lib / build_driver   compile the library from /repo's *working tree* and the driver
  run_driver                 execute a plan, record the ndjson trace
  tlc_plan                   let TLC expand a plan module (Plan_*.tla) into JSON shapes
  tlc_model                  run TLC on a model (MC_*.tla), return states/transitions/output
  validate                   shard a trace and have TLC validate it against a TV_*.tla spec
  Check                      verdict policy, replay files, evidence files, known findings

Exit codes: 0 held; 1 violation (VIOLATION line printed); 2 machinery failure.
"""
import os, sys, json, subprocess, tempfile, shutil, time, random, re, hashlib, atexit, glob
from concurrent.futures import ThreadPoolExecutor

VERIF = os.path.dirname(os.path.dirname(os.path.abspath(__file__)))
REPO = os.environ.get('TJ_REPO', '/repo')
SPEC = os.path.join(VERIF, 'spec')
# evidence goes to /verif/evidence; runs against a scratch tree (TJ_REPO) may redirect it so that committed evidence stays that of /repo
EVID = os.environ.get('TJ_EVIDENCE', os.path.join(VERIF, 'evidence'))
TLAJAR = '/opt/veriftools/tla/tla2tools.jar:/opt/veriftools/tla/CommunityModules-deps.jar'
NCPU = int(os.environ.get('TJ_JOBS', str(os.cpu_count() or 4)))

HOST_HAS = {'HAVE_STRINGS_H', 'HAVE_EXPLICIT_BZERO', 'HAVE_SYS_RANDOM_H', 'HAVE_SYS_SYSCALL_H', 'HAVE_TIME_H',
            'HAVE_SYS_TIME_H', 'HAVE_GETRANDOM', 'HAVE_GETENTROPY', 'HAVE_TIME', 'HAVE_GETTIMEOFDAY',
            'HAVE_CLOCK_GETTIME', 'HAVE_UNISTD_H', 'HAVE_FCNTL_H'}

CONFIGS = {
    'prod':   dict(cc='gcc',   flags='-O3 -Wall -Wextra'),
    'shared': dict(cc='gcc',   flags='-O3 -Wall -Wextra -fPIC', shared=True),
    'dbg':    dict(cc='gcc',   flags='-O0 -g'),
    'o1':     dict(cc='gcc',   flags='-O1'),
    'o2':     dict(cc='gcc',   flags='-O2'),
    'os':     dict(cc='gcc',   flags='-Os'),
    'alt':    dict(cc='clang', flags='-O2'),
    'alt0':   dict(cc='clang', flags='-O0'),
    'alt3':   dict(cc='clang', flags='-O3'),
    'san':    dict(cc='clang', flags='-O1 -g -fsanitize=address,undefined -fno-sanitize=nonnull-attribute '
                                      '-fno-sanitize-recover=undefined -fno-omit-frame-pointer'),
    'vg':     dict(cc='gcc',   flags='-O3 -g'),
    'tsan':   dict(cc='clang', flags='-O1 -g -fsanitize=thread'),
    # release builds of downstream projects define NDEBUG
    'ndebug': dict(cc='gcc', flags='-O3 -DNDEBUG'),
    # plain char is unsigned on ARM, RISC-V, Xtensa, PowerPC: the same sources must behave identically
    'uchar':  dict(cc='gcc', flags='-O2 -funsigned-char'),
    # the code path for hosts that are not known to be little-endian (byte-wise loads; correct on any host)
    'portable': dict(cc='gcc', flags=f'-O2 -include {VERIF}/harness/shim/be-belief.h'),
}


class MachineryError(Exception):
    pass


def sh(cmd, timeout=600, cwd=None, env=None, inp=None, check=False):
    p = subprocess.run(cmd, shell=isinstance(cmd, str), cwd=cwd, env=env, input=inp, timeout=timeout,
                       stdout=subprocess.PIPE, stderr=subprocess.STDOUT, text=True)
    if check and p.returncode != 0:
        raise MachineryError(f"command failed ({p.returncode}): {cmd}\n{p.stdout[-3000:]}")
    return p.returncode, p.stdout


_workdirs = []


def workdir(prefix='tjv-'):
    d = tempfile.mkdtemp(prefix=prefix, dir=os.environ.get('TJ_TMP', '/tmp'))
    _workdirs.append(d)
    return d


@atexit.register
def _cleanup():
    if os.environ.get('TJ_KEEP'):
        return
    for d in _workdirs:
        shutil.rmtree(d, ignore_errors=True)


# ----------------------------------------------------------------------------- builds
def write_config_h(dst, has=None):
    """config.h as cmake would produce it on this host from the working tree's config.h.in."""
    has = HOST_HAS if has is None else has
    lines = []
    for line in open(os.path.join(REPO, 'config.h.in')):
        m = re.match(r'#cmakedefine\s+(\w+)', line)
        if m:
            lines.append(f'#define {m.group(1)}\n' if m.group(1) in has else f'/* #undef {m.group(1)} */\n')
        else:
            lines.append(line)
    os.makedirs(dst, exist_ok=True)
    open(os.path.join(dst, 'config.h'), 'w').writelines(lines)


def lib_sources():
    src = sorted(glob.glob(os.path.join(REPO, 'src', '*.c')) + glob.glob(os.path.join(REPO, 'src', 'backend', '*.c')))
    src.append(os.path.join(REPO, 'src', 'random', 'tinyjambu-trng-dev-random.c'))
    return src


def build_lib(wd, cfg='prod', has=None, extra='', only=None):
    """Compile the library from REPO's working tree. Returns (objdir, [objects])."""
    c = CONFIGS[cfg]
    od = os.path.join(wd, 'lib-' + cfg + (hashlib.md5((extra + str(sorted(has or []))).encode()).hexdigest()[:6] if (extra or has) else ''))
    os.makedirs(od, exist_ok=True)
    write_config_h(od, has)
    srcs = only or lib_sources()

    def one(s):
        o = os.path.join(od, os.path.basename(s)[:-2] + '.o')
        rc, out = sh(f"{c['cc']} {c['flags']} {extra} -std=gnu99 -DHAVE_CONFIG_H -I{REPO}/src -I{od} -c {s} -o {o}", timeout=300)
        return rc, out, o
    with ThreadPoolExecutor(NCPU) as ex:
        res = list(ex.map(one, srcs))
    for rc, out, o in res:
        if rc != 0:
            raise MachineryError("library does not compile:\n" + out[-3000:])
    return od, [o for _, _, o in res]


OPTIONAL_CONFIGS = {'portable'}     # auxiliary configurations: if the tree no longer builds that way they are skipped


def build_driver(wd, cfg='prod', has=None, extra='', name='tjdrive', wraps=(), more_src=()):
    if cfg in OPTIONAL_CONFIGS:
        try:
            return _build_driver(wd, cfg, has, extra, name, wraps, more_src)
        except MachineryError as e:
            print(f"[note] optional build configuration '{cfg}' is not available for this tree: {str(e)[:200]}", flush=True)
            return None
    return _build_driver(wd, cfg, has, extra, name, wraps, more_src)


def _build_driver(wd, cfg='prod', has=None, extra='', name='tjdrive', wraps=(), more_src=()):
    od, objs = build_lib(wd, cfg, has, extra)
    c = CONFIGS[cfg]
    exe = os.path.join(od, name)
    wrapflags = ' '.join(f'-Wl,--wrap={w}' for w in wraps)
    if c.get('shared'):
        so = os.path.join(od, 'libtinyjambu.so')
        sh(f"{c['cc']} -shared -o {so} {' '.join(objs)}", check=True)
        sh(f"{c['cc']} {c['flags']} {extra} -I{REPO}/src -I{od} {VERIF}/harness/tjdrive.c {' '.join(more_src)} "
           f"-L{od} -ltinyjambu -Wl,-rpath,{od} {wrapflags} -pthread -o {exe}", check=True)
    else:
        ar = os.path.join(od, 'libtinyjambu.a')
        sh(f"ar rcs {ar} {' '.join(objs)}", check=True)
        sh(f"{c['cc']} {c['flags']} {extra} -I{REPO}/src -I{od} {VERIF}/harness/tjdrive.c {' '.join(more_src)} "
           f"{ar} {wrapflags} -pthread -o {exe}", check=True)
    return exe


def run_driver(exe, plan_lines, timeout=600, env=None, prefix=None, _depth=0):
    """Execute plan lines; returns list of events (dicts). A crash/timeout yields a Fault event; the plan is then
    resumed in a fresh process at the next 'reset' line (at most a few times), so one crash does not hide the rest."""
    events, err = _run_driver_once(exe, plan_lines, timeout, env, prefix)
    if events and events[-1].get('e') == 'Fault' and _depth < 6:
        fid = events[-1].get('id')
        idx = next((i for i, ln in enumerate(plan_lines) if re.search(rf'\bid={re.escape(str(fid))}(\s|$)', ln)), None)
        if idx is not None:
            nxt = next((j for j in range(idx + 1, len(plan_lines)) if plan_lines[j].startswith('reset')), None)
            if nxt is not None:
                more, err2 = run_driver(exe, plan_lines[nxt:], timeout, env, prefix, _depth + 1)
                return events + more, err + err2
    return events, err


def _run_driver_once(exe, plan_lines, timeout=600, env=None, prefix=None):
    inp = '\n'.join(plan_lines) + '\n'
    cmd = [exe] if prefix is None else prefix + [exe]
    try:
        p = subprocess.run(cmd, input=inp, stdout=subprocess.PIPE, stderr=subprocess.PIPE, text=True, timeout=timeout, env=env)
        out, err, rc = p.stdout, p.stderr, p.returncode
    except subprocess.TimeoutExpired as t:
        out = (t.stdout or b'').decode() if isinstance(t.stdout, bytes) else (t.stdout or '')
        err, rc = 'timeout', -999
    events = []
    for line in out.splitlines():
        line = line.strip()
        if not line.startswith('{'):
            continue
        try:
            events.append(json.loads(line))
        except Exception:
            events.append({"e": "Garbled", "id": "?", "text": line[:200]})
    if rc == 4:
        raise MachineryError("driver rejected the plan: " + err[-500:])
    if not events or events[-1].get('e') != 'End':
        if not events or events[-1].get('e') != 'Fault':
            events.append({"e": "Fault", "id": events[-1].get('id', '?') if events else '?', "op": "?", "sig": rc,
                           "buf": "none", "rel": 0, "stderr": err[-400:]})
    else:
        events.pop()
    return events, err


# ----------------------------------------------------------------------------- TLC
def _java(xmx='3g', gcthreads=2):
    gc = "-XX:+UseSerialGC" if gcthreads <= 1 else f"-XX:+UseParallelGC -XX:ParallelGCThreads={gcthreads}"
    return (f"java {gc} -XX:TieredStopAtLevel=4 -XX:CICompilerCount=2 -Xmx{xmx} -Xss16m "
            f"-cp {TLAJAR} tlc2.TLC -noGenerateSpecTE")


import threading
_spec_lock = threading.Lock()


def spec_copy(wd):
    d = os.path.join(wd, 'spec')
    with _spec_lock:
        if not os.path.isdir(d):
            shutil.copytree(SPEC, d + '.tmp')
            os.rename(d + '.tmp', d)
    return d


_RE_STATES = re.compile(r'(\d+) states generated, (\d+) distinct states found')
_RE_DEPTH = re.compile(r'The depth of the complete state graph search is (\d+)')


def parse_tlc(out):
    r = dict(generated=0, distinct=0, depth=0, ok=False, mismatches=[], error=None)
    for m in _RE_STATES.finditer(out):
        r['generated'], r['distinct'] = int(m.group(1)), int(m.group(2))
    m = _RE_DEPTH.search(out)
    if m:
        r['depth'] = int(m.group(1))
    r['ok'] = 'Model checking completed. No error has been found.' in out
    for line in out.splitlines():
        line = line.strip()
        if line.startswith('"{') and 'mismatch' in line:
            try:
                r['mismatches'].append(json.loads(json.loads(line)))
            except Exception:
                r['mismatches'].append({"mismatch": -1, "id": "?", "expected": line[:300]})
    m = re.search(r'^Error: (.*)$', out, re.M)
    if m:
        r['error'] = m.group(1)
    return r


def tlc_run(wd, module, cfg=None, env=None, workers=1, timeout=1800, xmx='3g', extra='', tag=''):
    sd = spec_copy(wd)
    md = tempfile.mkdtemp(prefix='md-', dir=wd)
    cfg = cfg or module
    e = dict(os.environ)
    e.update(env or {})
    # TLC leaves an empty tlc-<n> directory in java.io.tmpdir per run: keep them inside this run's metadir (removed below)
    cmd = (f"{_java(xmx, 1 if workers == 1 else 4)} -workers {workers} -metadir {md} {extra} "
           f"-config {cfg}.cfg {module}.tla").replace("java ", f"java -Djava.io.tmpdir={md} ", 1)
    try:
        rc, out = sh(cmd, timeout=timeout, cwd=sd, env=e)
    except subprocess.TimeoutExpired:
        rc, out = -999, 'TIMEOUT'
    shutil.rmtree(md, ignore_errors=True)
    return rc, out


def tlc_plan(wd, module, consts=None, timeout=300):
    """Run a Plan_*.tla module: TLC expands the shape space and serialises it to JSON."""
    out_path = os.path.join(wd, module + '.plan.json')
    env = {'PLANOUT': out_path}
    env.update({k: str(v) for k, v in (consts or {}).items()})
    rc, out = tlc_run(wd, module, env=env, timeout=timeout)
    if not os.path.exists(out_path):
        raise MachineryError(f"plan module {module} produced no plan:\n{out[-2000:]}")
    return json.load(open(out_path))


def tlc_model(wd, module, cfg=None, workers=None, timeout=1800, xmx='8g', extra='', env=None):
    rc, out = tlc_run(wd, module, cfg=cfg, workers=workers or NCPU, timeout=timeout, xmx=xmx, extra=extra, env=env)
    r = parse_tlc(out)
    r['rc'] = rc
    r['out'] = out
    return r


def split_executions(events):
    """An execution starts at a Reset event (or at the beginning)."""
    execs, cur = [], []
    for ev in events:
        if ev.get('e') == 'Reset' and cur:
            execs.append(cur)
            cur = []
        cur.append(ev)
    if cur:
        execs.append(cur)
    return execs


def validate(wd, module, executions, cost=None, shards=None, timeout=3000, cfg=None, xmx='3g'):
    """Validate executions (lists of events) against trace spec `module` with parallel 1-worker TLCs.
    Returns dict(states, transitions, events, mismatches=[(exec_index, event, info)], errors=[...])."""
    shards = shards or NCPU
    cost = cost or (lambda ev: 1)
    order = sorted(range(len(executions)), key=lambda i: -sum(cost(e) for e in executions[i]))
    bins = [[] for _ in range(min(shards, max(1, len(executions))))]
    loads = [0] * len(bins)
    for i in order:
        j = loads.index(min(loads))
        bins[j].append(i)
        loads[j] += sum(cost(e) for e in executions[i]) + 1
    td = tempfile.mkdtemp(prefix='tr-', dir=wd)
    jobs = []
    for b, idxs in enumerate(bins):
        if not idxs:
            continue
        idxs.sort()
        path = os.path.join(td, f'shard{b}.ndjson')
        index = []   # line -> (exec index, event)
        with open(path, 'w') as f:
            for i in idxs:
                for ev in executions[i]:
                    f.write(json.dumps(ev, separators=(',', ':')) + '\n')
                    index.append((i, ev))
        jobs.append((path, index))

    def one(job):
        path, index = job
        rc, out = tlc_run(wd, module, cfg=cfg, env={'TRACE': path}, timeout=timeout, xmx=xmx)
        return parse_tlc(out), out, index
    res = dict(states=0, transitions=0, events=0, mismatches=[], errors=[], shards=len(jobs))
    with ThreadPoolExecutor(len(jobs) or 1) as ex:
        for r, out, index in ex.map(one, jobs):
            res['states'] += r['distinct']
            res['transitions'] += max(0, r['generated'] - 1)
            res['events'] += len(index)
            for mm in r['mismatches']:
                l = mm.get('mismatch', -1)
                if 1 <= l <= len(index):
                    res['mismatches'].append((index[l - 1][0], index[l - 1][1], mm))
                else:
                    res['errors'].append(f"mismatch with bad line {mm}")
            broken = 'TIMEOUT' in out or re.search(r'Exception|error occurred|Parsing or semantic|Error: TLC|StackOverflow|OutOfMemory', out)
            if r['depth'] != len(index) + 1:
                if 1 <= r['depth'] <= len(index) and not broken:
                    # TLC stopped because no action of the trace specification is enabled for this event
                    i, ev = index[r['depth'] - 1]
                    res['mismatches'].append((i, ev, {"mismatch": r['depth'], "id": ev.get('id'),
                                                      "expected": "no action of the specification matches this event"}))
                    res['unconsumed'] = res.get('unconsumed', 0) + (len(index) - r['depth'])
                else:
                    res['errors'].append("TLC did not consume the trace: " + out[-1500:])
            elif not r['ok'] and not r['mismatches']:
                res['errors'].append("TLC failed: " + out[-1500:])
    shutil.rmtree(td, ignore_errors=True)
    return res


# ----------------------------------------------------------------------------- data helpers
class Rng:
    def __init__(self, seed):
        self.r = random.Random(seed)

    def bytes(self, n, cls='r'):
        if cls == 'z':
            return bytes(n)
        if cls == 'f':
            return b'\xff' * n
        if cls == 'c':
            return bytes(i & 0xFF for i in range(n))
        if cls == 'h':
            return bytes(0x80 | self.r.getrandbits(7) for _ in range(n))
        b = bytes(self.r.getrandbits(8) for _ in range(n))
        # value classes at the boundaries of a string: padding-like endings and beginnings
        if cls == 'e' and n:                      # ends in 0x00
            return b[:-1] + b'\x00'
        if cls == 't' and n:                      # ends in a run of 0x00
            k = min(n, 1 + self.r.randint(1, 19))
            return b[:n - k] + bytes(k)
        if cls == '8' and n:                      # ends in 0x80 (the hash padding byte) then zeros
            k = min(n, self.r.choice([1, 2, 5, 16]))
            return b[:n - k] + b'\x80' + bytes(k - 1)
        if cls == 'l' and n:                      # begins with 0x00
            return b'\x00' + b[1:]
        return b

    def hex(self, n, cls='r'):
        return hx(self.bytes(n, cls))

    def choice(self, xs):
        return self.r.choice(xs)

    def randint(self, a, b):
        return self.r.randint(a, b)

    def sample(self, xs, k):
        xs = list(xs)
        return self.r.sample(xs, min(k, len(xs)))

    def shuffle(self, xs):
        self.r.shuffle(xs)


def hx(b):
    return b.hex() if len(b) else '-'


def unhx(s):
    return b'' if s in ('-', 'null', '') else bytes.fromhex(s)


# ----------------------------------------------------------------------------- verdicts and evidence
class Check:
    def __init__(self, pid, level, argv=None):
        self.pid = pid
        self.level = level
        self.t0 = time.time()
        self.tier = os.environ.get('VERIF_TIER', 'quick')
        self.replay = None
        args = list(argv or [])
        while args:
            a = args.pop(0)
            if a == '--tier':
                self.tier = args.pop(0)
            elif a == '--replay':
                self.replay = args.pop(0)
            elif a in ('quick', 'thorough'):
                self.tier = a
        if self.tier not in ('quick', 'thorough'):
            self.tier = 'quick'
        self.seed = int(os.environ.get('VERIF_SEED', '20261003') or 0)
        self.wd = workdir(f'tjv-{pid}-')
        self.cov = dict(states=0, transitions=0, traces_validated_against_impl=0, evaluations=0,
                        distinct_nontrivial=0, samples=[], rule='', models=[], trace_specs=[], builds=[])
        self.assumptions = []
        self.violations = []   # (what, replay dict)
        self.known = load_known(pid)
        self.known_hit = []
        self._distinct = set()

    @property
    def thorough(self):
        return self.tier == 'thorough'

    def log(self, *a):
        print(f"[{self.pid} {time.time() - self.t0:6.1f}s]", *a, flush=True)

    def add_model(self, name, r, exhaustive=True):
        if not r['ok']:
            raise MachineryError(f"model {name} failed:\n{r['out'][-3000:]}")
        self.cov['states'] += r['distinct']
        self.cov['transitions'] += r['generated']
        self.cov['models'].append(dict(model=name, distinct=r['distinct'], generated=r['generated'], depth=r['depth'],
                                       exhaustive=exhaustive))
        self.log(f"model {name}: {r['distinct']} distinct states, {r['generated']} generated, depth {r['depth']}")

    def add_validation(self, module, res, executions, distinct_key=None, nontrivial=None):
        if res['errors']:
            raise MachineryError(f"trace validation {module} failed:\n" + '\n'.join(res['errors'])[:4000])
        self.cov['states'] += res['states']
        self.cov['transitions'] += res['transitions']
        self.cov['traces_validated_against_impl'] += len(executions)
        self.cov['evaluations'] += res['events']
        self.cov['trace_specs'].append(dict(spec=module, executions=len(executions), events=res['events'],
                                            shards=res['shards'], mismatches=len(res['mismatches'])))
        kinds = self.cov.setdefault('events_by_action', {})
        for ex in executions:
            for ev in ex:
                kinds[f"{module}.{ev.get('e')}"] = kinds.get(f"{module}.{ev.get('e')}", 0) + 1
        for ex in executions:
            for ev in ex:
                if ev.get('e') in ('Reset', 'End', 'Packet'):
                    continue
                if nontrivial and not nontrivial(ev):
                    continue
                k = distinct_key(ev) if distinct_key else json.dumps(ev, sort_keys=True)
                self._distinct.add(hashlib.md5(str(k).encode()).hexdigest())
        self.log(f"validated {res['events']} events / {len(executions)} executions against {module}: "
                 f"{len(res['mismatches'])} rejected")

    def sample(self, obj, maxn=6):
        if len(self.cov['samples']) < maxn:
            self.cov['samples'].append(trim(obj))

    def violation(self, what, replay):
        """Record a violation unless it is a listed known finding."""
        for k in self.known:
            if k.get('status') == 'open' and k.get('match') and k['match'] in json.dumps(replay, sort_keys=True):
                if k not in self.known_hit:
                    self.known_hit.append(k)
                return
        self.violations.append((what, replay))

    def finish(self, rule, assumptions=(), exhaustive=False, extra=None):
        if 'mode_level' in self.cov:
            rule += ("; mode level: MC_Mode - TLC runs the mode machine of TJMode (one action per permutation call) with the real "
                     "permutation and shows its verdict equals the functional specification and its call count the closed form; "
                     "TV_Mode - every permutation call the real code makes (link-time --wrap seam) is the call the machine "
                     "predicts (input state, rounds, key words, none missing or extra) under the real permutation and under "
                     "adversarial stand-in answers (fixed points, all-zero / all-ones, repeated keystream words)")
        self.cov['rule'] = rule
        self.cov['distinct_nontrivial'] = len(self._distinct)
        self.cov['exhaustive'] = exhaustive
        if extra:
            self.cov.update(extra)
        if not self.cov['samples']:
            self.cov['samples'] = ['(no samples recorded)']
        ev = dict(property_id=self.pid, tier=self.tier, seed=self.seed, level=self.level, coverage=self.cov,
                  assumptions=list(assumptions) + self.assumptions, wall_s=round(time.time() - self.t0, 2),
                  violations=len(self.violations))
        if self.cov['states'] == 0:
            self.cov['states'] = 0
        os.makedirs(os.path.join(EVID), exist_ok=True)
        if not self.replay:
            with open(os.path.join(EVID, f'{self.pid}.json'), 'w') as f:
                json.dump(ev, f, indent=1)
        for k in self.known_hit:
            print(f"KNOWN-FINDING: property={self.pid} {k.get('what', '')}", flush=True)
        if self.violations:
            os.makedirs(os.path.join(EVID, 'replay'), exist_ok=True)
            for n, (what, rep) in enumerate(self.violations[:5]):
                path = os.path.join(EVID, 'replay', f'{self.pid}-{n}.json')
                with open(path, 'w') as f:
                    json.dump(dict(property=self.pid, what=what, tier=self.tier, seed=self.seed, replay=rep), f, indent=1)
                print(f"  violation: {what}", flush=True)
                print(f"VIOLATION property={self.pid} replay={path}", flush=True)
            if len(self.violations) > 5:
                print(f"  ... and {len(self.violations) - 5} more violations", flush=True)
            self.log(f"FAILED: {len(self.violations)} violation(s)")
            sys.exit(1)
        self.log(f"held on everything explored ({self.cov['evaluations']} events, {self.cov['states']} TLC states)")
        sys.exit(0)


def trim(o, maxlist=24):
    if isinstance(o, dict):
        return {k: trim(v, maxlist) for k, v in o.items()}
    if isinstance(o, list):
        if len(o) > maxlist and all(isinstance(x, int) for x in o):
            return o[:maxlist] + [f"... {len(o)} bytes"]
        if len(o) > maxlist:
            return [trim(x, maxlist) for x in o[:maxlist]] + [f"... {len(o)} items"]
        return [trim(x, maxlist) for x in o]
    if isinstance(o, str) and len(o) > 200:
        return o[:200] + f"... ({len(o)} chars)"
    return o


def load_known(pid):
    p = os.path.join(VERIF, 'known-findings.json')
    if not os.path.exists(p):
        return []
    try:
        return [k for k in json.load(open(p)).get('findings', []) if k.get('property') == pid]
    except Exception as e:
        raise MachineryError(f"known-findings.json unreadable: {e}")


def main_wrap(fn):
    try:
        fn()
    except MachineryError as e:
        print(f"MACHINERY-ERROR: {e}", flush=True)
        sys.exit(2)
    except subprocess.TimeoutExpired as e:
        print(f"MACHINERY-ERROR: timeout {e}", flush=True)
        sys.exit(2)
