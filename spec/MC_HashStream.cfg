SPECIFICATION Spec
CONSTANTS NObj = 2  MaxTotal = 34  MaxLen = 34  SimDepth = 1000
VIEW view
INVARIANT StreamingEqOneShot
INVARIANT BufBound
INVARIANT FreeErases
PROPERTY InitResets
PROPERTY Isolation
CHECK_DEADLOCK FALSE
