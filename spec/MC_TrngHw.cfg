CONSTANTS Words = 3
          Budget = 3
SPECIFICATION FairSpec
INVARIANTS Contract NeverBad OneResult
PROPERTY Returns
CHECK_DEADLOCK TRUE
