SPECIFICATION Spec
CONSTANTS Sizes = {0, 1, 31, 32, 33, 64, 100, 1100}  Limits = {0, 1, 31, 33, 64, 96, 1024}  FeedLens = {1}
          MaxCounter = 48  MaxOps = 12  SimDepth = 1000
VIEW view
CONSTRAINT Bounded
INVARIANT TypeOK
INVARIANT SinceVsCounter
INVARIANT NeverStuck
PROPERTY ReseedBound
PROPERTY FeedMonotone
PROPERTY LimitRule
PROPERTY TruthfulStatus
CHECK_DEADLOCK FALSE
