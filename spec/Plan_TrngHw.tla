----------------------------- MODULE Plan_TrngHw -----------------------------
(***************************************************************************)
(* Device scripts and platform-macro sets for the conformance run of the   *)
(* hardware entropy back ends, expanded by TLC and serialised to PLANOUT.  *)
(*   due     per-word delay classes (not-ready answers before the word is  *)
(*           ready): every vector with at most two words off the default,  *)
(*           over the classes 0, 1, Budget-1, Budget, Budget+1             *)
(*   stm32   every subset of the eight HAL calls failing                    *)
(*   windows acquire / generate succeed or fail                            *)
(*   select  every subset of at most two platform macros, and every subset *)
(*           of one representative per class                               *)
(***************************************************************************)
EXTENDS Naturals, Sequences, FiniteSets, TLC, Json, IOUtils, SequencesExt, TJTrngHw

Classes == {0, 1, Budget - 1, Budget, Budget + 1}
Vec(p, d, q, e, base) == [i \in 1..Words |-> IF i = p THEN d ELSE IF i = q THEN e ELSE base]
Due == { Vec(p, d, q, e, b) : p \in 1..Words, q \in 1..Words, d \in Classes, e \in Classes, b \in {0, 2} }
       \cup { [i \in 1..Words |-> c] : c \in Classes }
Stm32 == { [i \in 1..Words |-> IF i \in F THEN 1 + ((i + Cardinality(F)) % 3) ELSE 0] : F \in SUBSET (1..Words) }
Windows == { [acq |-> a, gen |-> g] : a \in {0, 1}, g \in {0, 1} }
Reps == {"_WIN32", "__linux__", "USE_HAL_DRIVER", "RNG", "FAMILY", "__arm__", "__SAM3X8E__", "ARDUINO", "ESP32", "ESP8266"}
Sel == { S \in SUBSET PlatformMacros : Cardinality(S) <= 2 } \cup SUBSET Reps

Plan == [due |-> SetToSeq(Due), stm32 |-> SetToSeq(Stm32), windows |-> SetToSeq(Windows),
         select |-> SetToSeq({SetToSeq(S) : S \in Sel})]
ASSUME JsonSerialize(IOEnv.PLANOUT, Plan)

VARIABLE x
Init == x = 0
Next == UNCHANGED x
Spec == Init /\ [][Next]_x
=============================================================================
