SPECIFICATION Spec
CONSTANT DiffVals = {0, 1, 255}
INVARIANT TypeOK
INVARIANT Correct
INVARIANT AcceptIff
INVARIANT NoLeak
INVARIANT AlgoEqSpec
CHECK_DEADLOCK FALSE
