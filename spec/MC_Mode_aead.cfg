SPECIFICATION Spec
CONSTANTS MaxAd = 5
          MaxM = 9
          MaxH = 33
          Ops = {"aenc", "adec"}
INVARIANT ModeRefines
INVARIANT CallCount
INVARIANT TypeOK
CHECK_DEADLOCK FALSE
