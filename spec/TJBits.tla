------------------------------- MODULE TJBits -------------------------------
(***************************************************************************)
(* Bit and byte plumbing shared by every TinyJAMBU specification module.   *)
(*                                                                         *)
(* Representation: a bit is a BOOLEAN; a byte is a Nat in 0..255; a buffer *)
(* is a sequence of bytes; a bit string is a sequence of bits with the     *)
(* least significant bit of byte j at index 8*(j-1)+1 (little-endian bit   *)
(* numbering, which is TinyJAMBU's: bit i of the specification's state is  *)
(* index i+1 of a 128-element sequence).  No integer above 2^24 is ever    *)
(* built, so TLC's 32-bit integers are not an issue.                       *)
(***************************************************************************)
EXTENDS Naturals, Sequences, SequencesExt

P2 == <<1, 2, 4, 8, 16, 32, 64, 128>>

Byte == 0..255

\* the 8 bits of a byte, least significant first
ByteBits(b) == [i \in 1..8 |-> (b \div P2[i]) % 2 = 1]

\* the bits of a byte string: bit k of byte j at index 8*(j-1)+k+1
BytesBits(bs) ==
    [j \in 1..(8 * Len(bs)) |-> (bs[((j - 1) \div 8) + 1] \div P2[((j - 1) % 8) + 1]) % 2 = 1]

B2N(b) == IF b THEN 1 ELSE 0

\* inverse of BytesBits for bit strings whose length is a multiple of 8
BitsBytes(bits) ==
    [j \in 1..(Len(bits) \div 8) |->
        LET o == 8 * (j - 1) IN
          B2N(bits[o+1])      + 2 * B2N(bits[o+2])  + 4 * B2N(bits[o+3])  + 8 * B2N(bits[o+4])
        + 16 * B2N(bits[o+5]) + 32 * B2N(bits[o+6]) + 64 * B2N(bits[o+7]) + 128 * B2N(bits[o+8])]

\* XOR the bit string "bits" into S starting at (0-based) bit offset "off"
XorAt(S, off, bits) ==
    [i \in 1..Len(S) |-> IF i > off /\ i <= off + Len(bits) THEN S[i] # bits[i - off] ELSE S[i]]

\* XOR of two bytes, via their bits
XorByte(a, b) ==
    LET x == ByteBits(a) y == ByteBits(b) IN
          B2N(x[1] # y[1])      + 2 * B2N(x[2] # y[2])  + 4 * B2N(x[3] # y[3])  + 8 * B2N(x[4] # y[4])
        + 16 * B2N(x[5] # y[5]) + 32 * B2N(x[6] # y[6]) + 64 * B2N(x[7] # y[7]) + 128 * B2N(x[8] # y[8])

\* bytewise XOR of a with the first Len(a) bytes of b
XorBytes(a, b) == [i \in 1..Len(a) |-> XorByte(a[i], b[i])]

Zeros(n) == [i \in 1..n |-> 0]
Rep(n, v) == [i \in 1..n |-> v]
ZeroBits(n) == [i \in 1..n |-> FALSE]

\* the sequence <<0, 1, ..., n-1>> (empty for n = 0); folds run over it
Idx(n) == [i \in 1..n |-> i - 1]

\* split a byte string into consecutive chunks of k bytes, the last one shorter
Chunks(data, k) ==
    [j \in 1..((Len(data) + k - 1) \div k) |->
        SubSeq(data, k * (j - 1) + 1, IF k * j <= Len(data) THEN k * j ELSE Len(data))]

IsBytes(s) == \A i \in 1..Len(s) : s[i] \in Byte
=============================================================================
