------------------------------- MODULE TV_Conc -------------------------------
(***************************************************************************)
(* Trace specification for the dynamic side of C19.                        *)
(*                                                                         *)
(*  Thread   one per thread of the concurrent workload: the digest of all  *)
(*           results of the thread's calls when run concurrently with the  *)
(*           other threads must equal the digest of the same calls run     *)
(*           serially (MC_Conc!SerialEquivalence, observed).               *)
(*  Serial2  the serial workloads re-run in another order gave the same    *)
(*           results (no dependence on earlier unrelated calls).           *)
(*  SysSeed  generators seeded from the built-in system source by          *)
(*           different threads are pairwise distinct (the scripted OS      *)
(*           hands out unique bytes per call).                             *)
(*  Base / Again   history independence with the plan executor: an event   *)
(*           recorded in a bare execution (Base) and the same call made    *)
(*           after / between unrelated calls (Again) have equal outputs.   *)
(* A San event (ThreadSanitizer report) has no action.                     *)
(***************************************************************************)
EXTENDS TVBase, TJMem

VARIABLES l, H
vars == <<l, H>>

TThread == /\ Tr[l].e = "Thread"
           /\ Judge(Tr[l].serial = Tr[l].conc /\ Tr[l].allmatch = 1, l, Tr[l], Tr[l].serial)
           /\ H' = H
TSerial2 == /\ Tr[l].e = "Serial2"
            /\ Judge(Tr[l].same = 1, l, Tr[l], "serial results must not depend on the order of unrelated calls")
            /\ H' = H
TSysSeed == /\ Tr[l].e = "SysSeed"
            /\ Judge(Tr[l].distinct = 1, l, Tr[l], "system-seeded generators of different threads must differ")
            /\ H' = H
TBase == /\ Tr[l].e \notin {"Thread", "Serial2", "SysSeed", "San", "Fault"}
         /\ LET e == Tr[l] IN
            IF Field(e, "base", 0) = 1
            THEN H' = H @@ (e.id :> Outputs(e))
            ELSE /\ Judge(e.id \notin DOMAIN H \/ H[e.id] = Outputs(e), l, e,
                          IF e.id \in DOMAIN H THEN H[e.id] ELSE "-")
                 /\ H' = H

Init == l = 1 /\ InitRegs /\ H = <<>>
Next == l <= Len(Tr) /\ l' = l + 1 /\ (TThread \/ TSerial2 \/ TSysSeed \/ TBase)
Spec == Init /\ [][Next]_vars
TraceAccepted == Accepted(Len(Tr))
=============================================================================
