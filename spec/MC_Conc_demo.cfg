SPECIFICATION Spec
CONSTANTS Threads = {1, 2, 3}  NCalls = 3  Globals = {}  Imports = {"memcpy", "memset", "explicit_bzero", "getrandom"}
          HeapFns = {"malloc", "calloc", "realloc", "free", "aligned_alloc", "posix_memalign", "strdup", "mmap", "sbrk", "brk"}
INVARIANT SerialEquivalence
INVARIANT NoHeap
INVARIANT NoGlobals
CHECK_DEADLOCK FALSE
