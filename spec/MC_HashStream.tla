---------------------------- MODULE MC_HashStream ----------------------------
(***************************************************************************)
(* Design-level model of incremental hashing (C11) and of the life cycle   *)
(* of hash state objects (C20), data-abstract.                             *)
(*                                                                         *)
(* The bytes of a message are abstracted to their positions 1, 2, 3, ...   *)
(* and the compression function to "append this 16-byte block to the list  *)
(* of compressed blocks", so that the digest is an injective function of   *)
(* (compressed blocks, final padded block).  Under this abstraction        *)
(* "streamed digest = one-shot digest" is exactly                          *)
(*      Flatten(blocks) \o buf = msg  /\  Len(buf) < 16.                   *)
(*                                                                         *)
(* Update is written as the three phases of the code (top up a partial     *)
(* block and compress it, compress whole blocks straight from the input,   *)
(* keep the remainder) - the model is the algorithm, the invariant is the  *)
(* specification.  Objects go through every status: garbage (arbitrary     *)
(* prior contents), live, final, freed; Init/Reinit are enabled from every *)
(* status and must produce the initial state.                              *)
(*                                                                         *)
(* hist records the operations for plan generation in simulation mode and  *)
(* is hidden from the exhaustive search by VIEW.                           *)
(***************************************************************************)
EXTENDS Naturals, Sequences, SequencesExt, FiniteSets, TLC, Json

CONSTANTS NObj, MaxTotal, MaxLen, SimDepth

Objs == 1..NObj

VARIABLES obj,    \* obj[o] = [st, blocks, buf, msg, junk]
          hist
vars == <<obj, hist>>
view == obj

Fresh == [st |-> "live", blocks |-> <<>>, buf |-> <<>>, msg |-> <<>>]
Junk(s) == [st |-> s, blocks |-> <<>>, buf |-> <<>>, msg |-> <<>>]

Init == /\ obj = [o \in Objs |-> Junk("garbage")]
        /\ hist = <<>>

Log(op, o, n) == hist' = Append(hist, [op |-> op, obj |-> o - 1, len |-> n])

\* init and reinit: enabled whatever the object held before
DoInit(o) ==
    /\ obj' = [obj EXCEPT ![o] = Fresh]
    /\ Log("hinit", o, 0)
DoReinit(o) ==
    /\ obj' = [obj EXCEPT ![o] = Fresh]
    /\ Log("hreinit", o, 0)

\* the next n message positions
NextData(h, n) == [i \in 1..n |-> Len(h.msg) + i]

\* the update algorithm, phase by phase
UpdateAlgo(h, data) ==
    LET posn == Len(h.buf)
        n    == Len(data)
    IN  IF posn > 0 /\ 16 - posn > n
        THEN [h EXCEPT !.buf = h.buf \o data]                         \* stays inside the partial block
        ELSE LET temp  == IF posn > 0 THEN 16 - posn ELSE 0            \* phase 1: top up and compress
                 b1    == IF posn > 0 THEN Append(h.blocks, h.buf \o SubSeq(data, 1, temp)) ELSE h.blocks
                 rest  == SubSeq(data, temp + 1, n)
                 nfull == Len(rest) \div 16                            \* phase 2: whole blocks from the input
                 b2    == b1 \o [j \in 1..nfull |-> SubSeq(rest, 16 * (j - 1) + 1, 16 * j)]
             IN  [h EXCEPT !.blocks = b2,
                           !.buf = SubSeq(rest, 16 * nfull + 1, Len(rest))]   \* phase 3: remainder

DoUpdate(o, n) ==
    /\ obj[o].st = "live"
    /\ Len(obj[o].msg) + n <= MaxTotal
    /\ LET d == NextData(obj[o], n)
           h == UpdateAlgo(obj[o], d)
       IN  obj' = [obj EXCEPT ![o] = [h EXCEPT !.msg = obj[o].msg \o d]]
    /\ Log("hupdate", o, n)

DoFinal(o) ==
    /\ obj[o].st = "live"
    /\ obj' = [obj EXCEPT ![o].st = "final"]
    /\ Log("hfinal", o, 0)

DoFree(o) ==
    /\ obj' = [obj EXCEPT ![o] = Junk("freed")]
    /\ Log("hfree", o, 0)

DoGarbage(o) ==
    /\ obj[o].st # "garbage"
    /\ obj' = [obj EXCEPT ![o] = Junk("garbage")]
    /\ Log("garbage", o, 0)

Next == \E o \in Objs :
            \/ DoInit(o) \/ DoReinit(o) \/ DoFinal(o) \/ DoFree(o) \/ DoGarbage(o)
            \/ \E n \in 0..MaxLen : DoUpdate(o, n)

Spec == Init /\ [][Next]_vars

----------------------------------------------------------------------------
Flatten(bs) == FoldLeft(LAMBDA a, b : a \o b, <<>>, bs)

\* the decomposition the one-shot function computes for the same message
OneShotBlocks(m) == [j \in 1..(Len(m) \div 16) |-> SubSeq(m, 16 * (j - 1) + 1, 16 * j)]
OneShotRest(m) == SubSeq(m, 16 * (Len(m) \div 16) + 1, Len(m))

\* C11: whatever the chunking, a live or finalized object holds exactly the one-shot decomposition
StreamingEqOneShot ==
    \A o \in Objs : obj[o].st \in {"live", "final"} =>
        /\ obj[o].blocks = OneShotBlocks(obj[o].msg)
        /\ obj[o].buf = OneShotRest(obj[o].msg)

BufBound == \A o \in Objs : Len(obj[o].buf) < 16 /\ \A j \in 1..Len(obj[o].blocks) : Len(obj[o].blocks[j]) = 16

\* init/reinit reset completely, from any status
InitResets ==
    [][\A o \in Objs : (hist' # hist /\ Last(hist').op \in {"hinit", "hreinit"} /\ Last(hist').obj = o - 1)
                          => obj'[o] = Fresh]_vars

\* operations on one object never affect another
Isolation ==
    [][\A o \in Objs : (hist' # hist /\ Last(hist').obj # o - 1) => obj'[o] = obj[o]]_vars

\* after free nothing of the history is left in the object
FreeErases == \A o \in Objs : obj[o].st = "freed" => obj[o] = Junk("freed")

\* simulation mode: print the history of every behaviour that reaches SimDepth
PlanOut == Len(hist) < SimDepth \/ PrintT(<<"PLAN", ToJson(hist)>>)
=============================================================================
