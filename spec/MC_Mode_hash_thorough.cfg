SPECIFICATION Spec
CONSTANTS MaxAd = 9
          MaxM = 17
          MaxH = 70
          Ops = {"hash"}
INVARIANT ModeRefines
INVARIANT CallCount
INVARIANT TypeOK
CHECK_DEADLOCK FALSE
