------------------------------- MODULE TV_Hash -------------------------------
(***************************************************************************)
(* Trace specification for the hash family: TinyJAMBU-Hash, HMAC, HKDF and *)
(* PBKDF2, one-shot and incremental, several state objects at a time.      *)
(*                                                                         *)
(* State objects are numbered 0..7 per kind.  hs[o] / ms[o] is the hash    *)
(* machine of TJHash (for HMAC objects: the inner hash), ks[o] the HKDF    *)
(* machine of TJKdf.  Every event advances the machine with the logged     *)
(* arguments and compares the logged outputs with the machine's.           *)
(*                                                                         *)
(* Two ways to judge a streamed digest:                                    *)
(*   interpreted  the machine state [L, R, buf] is advanced with the real  *)
(*                compression function and the digest computed (op = 0);   *)
(*   opaque       the object only accumulates the message; the digest must *)
(*                equal the one-shot digest of the same message learned    *)
(*                earlier in the same execution from a Hash event with     *)
(*                learn = 1 (op = 1).  This is literally C11's statement   *)
(*                and costs TLC nothing, so it is used for the bulk.       *)
(***************************************************************************)
EXTENDS TVBase, TJKdf

VARIABLES l, hs, ms, ks, D, kc

vars == <<l, hs, ms, ks, D, kc>>

Objs == 0..7
Garbage == [L |-> ZeroBits(128), R |-> ZeroBits(128), buf |-> <<>>, st |-> "garbage", msg |-> <<>>]
NoKdf == [prk |-> <<>>, t |-> <<>>, counter |-> 0, posn |-> 0, live |-> FALSE, total |-> 0]
NoKc == [key |-> <<>>, set |-> FALSE, ks |-> <<>>]

WithMsg(h, m) == [L |-> h.L, R |-> h.R, buf |-> h.buf, st |-> h.st, msg |-> m]

\* cached keyed HMAC states for runs of events under one key (cleared by Reset)
KeyStates(key) == IF kc.set /\ kc.key = key THEN kc.ks ELSE HmacStates(key)
Remember(key) == kc' = IF kc.set /\ kc.key = key THEN kc ELSE [key |-> key, set |-> TRUE, ks |-> HmacStates(key)]

Learned(m) == \E p \in D : p[1] = m
DigestOfMsg(m) == (CHOOSE p \in D : p[1] = m)[2]

----------------------------------------------------------------------------
TReset == /\ Tr[l].e = "Reset"
          /\ hs' = [o \in Objs |-> Garbage] /\ ms' = [o \in Objs |-> Garbage]
          /\ ks' = [o \in Objs |-> NoKdf] /\ D' = {} /\ kc' = NoKc

TGarbage == /\ Tr[l].e = "Garbage"
            /\ LET e == Tr[l] IN
               /\ hs' = IF e.kind = "hash" THEN [hs EXCEPT ![e.obj] = Garbage] ELSE hs
               /\ ms' = IF e.kind = "hmac" THEN [ms EXCEPT ![e.obj] = Garbage] ELSE ms
               /\ ks' = IF e.kind = "hkdf" THEN [ks EXCEPT ![e.obj] = NoKdf] ELSE ks
            /\ UNCHANGED <<D, kc>>

\* ---- one-shot hash
THash == /\ Tr[l].e = "Hash"
         /\ LET e == Tr[l] IN
            IF e.learn = 1
            THEN /\ Judge(e.canary = 1 /\ e.inmod = 0 /\ Len(e.out) = 32, l, e, "buffer contract")
                 /\ Judge(~Learned(e.m) \/ DigestOfMsg(e.m) = e.out, l, e, "one-shot hash is deterministic")
                 /\ D' = D \cup {<<e.m, e.out>>}
            ELSE /\ LET x == Hash(e.m) IN Judge(e.out = x /\ e.canary = 1 /\ e.inmod = 0, l, e, x)
                 /\ D' = D
         /\ UNCHANGED <<hs, ms, ks, kc>>

\* ---- incremental hash
THInit == /\ Tr[l].e \in {"HInit", "HReinit"}
          /\ LET e == Tr[l] IN
             /\ Judge(e.canary = 1, l, e, "state object canary")
             /\ hs' = [hs EXCEPT ![e.obj] = WithMsg(HInit, <<>>)]
          /\ UNCHANGED <<ms, ks, D, kc>>

\* the caller relocates a state object (a plain struct: memcpy) and continues with the copy; the old storage is reused
THMove == /\ Tr[l].e = "HMove"
          /\ LET e == Tr[l] IN
             /\ Judge(e.canary = 1, l, e, "state object canary")
             /\ hs' = IF e.to = e.obj THEN hs ELSE [hs EXCEPT ![e.to] = hs[e.obj], ![e.obj] = Garbage]
          /\ UNCHANGED <<ms, ks, D, kc>>

\* White-box probe (harness op hinject): the state object was overwritten with chosen chaining values (L, R) - values a
\* real message reaches with probability 2^-32 per word (a word of R all ones, all zero, ...) - and the following events
\* are judged from exactly that state.  HInjectSkip: the probe did not recognise the private layout and did nothing.
THInject == /\ Tr[l].e \in {"HInject", "HInjectSkip"}
            /\ LET e == Tr[l] IN
               IF e.e = "HInjectSkip" THEN hs' = hs
               ELSE /\ Judge(e.canary = 1 /\ Len(e.L) = 16 /\ Len(e.R) = 16, l, e, "plan error: injected chaining values")
                    /\ hs' = [hs EXCEPT ![e.obj] = [L |-> BytesBits(e.L), R |-> BytesBits(e.R), buf |-> <<>>, st |-> "live", msg |-> <<>>]]
            /\ UNCHANGED <<ms, ks, D, kc>>

\* every argument expression of an API call is evaluated exactly once (events of object calls carry the count)
EvalsOK == LET e == Tr[l] IN ("evals" \in DOMAIN e) => Judge(e.evals = 1, l, e, "the object argument of the call was evaluated more than once")

THUpdate == /\ Tr[l].e = "HUpdate"
            /\ LET e == Tr[l]
                   h == hs[e.obj]
               IN  /\ Judge(h.st = "live", l, e, "plan error: update on an object that is not live")
                   /\ Judge(e.canary = 1 /\ e.dcanary = 1 /\ e.inmod = 0, l, e, "buffer contract")
                   /\ hs' = [hs EXCEPT ![e.obj] =
                               IF e.op = 1 THEN WithMsg(h, h.msg \o e.d)
                               ELSE WithMsg(HUpdate(h, e.d), h.msg \o e.d)]
            /\ UNCHANGED <<ms, ks, D, kc>>

THFinal == /\ Tr[l].e = "HFinal"
           /\ LET e == Tr[l]
                  h == hs[e.obj]
              IN  /\ Judge(h.st = "live", l, e, "plan error: finalize on an object that is not live")
                  /\ Judge(e.canary = 1 /\ e.ocanary = 1, l, e, "buffer contract")
                  /\ IF e.op = 1
                     THEN /\ Judge(Learned(h.msg) /\ e.out = DigestOfMsg(h.msg), l, e,
                                   IF Learned(h.msg) THEN DigestOfMsg(h.msg) ELSE "digest of this message was never learned")
                          /\ hs' = [hs EXCEPT ![e.obj] = [h EXCEPT !.st = "final"]]
                     ELSE LET f == HFinalState(h) IN
                          /\ Judge(e.out = HDigestOf(f), l, e, HDigestOf(f))
                          /\ Judge(Len(h.buf) < 16, l, e, "machine invariant Len(buf) < 16")
                          /\ hs' = [hs EXCEPT ![e.obj] = WithMsg(f, h.msg)]
           /\ UNCHANGED <<ms, ks, D, kc>>

\* C20: after free every byte of the public state object is zero
FreeOK(e) == e.nonzero = 0 /\ e.canary = 1

THFree == /\ Tr[l].e = "HFree"
          /\ LET e == Tr[l] IN
             /\ Judge(FreeOK(e), l, e, "free zeroes the whole state object")
             /\ hs' = [hs EXCEPT ![e.obj] = WithMsg(HFreed, <<>>)]
          /\ UNCHANGED <<ms, ks, D, kc>>

\* ---- HMAC
THmac == /\ Tr[l].e = "Hmac"
         /\ LET e == Tr[l]
                x == HmacWith(KeyStates(e.k), e.m)
            IN  /\ Judge(e.out = x /\ e.canary = 1 /\ e.inmod = 0, l, e, x)
                /\ Remember(e.k)
         /\ UNCHANGED <<hs, ms, ks, D>>

THmInit == /\ Tr[l].e \in {"HmInit", "HmReinit"}
           /\ LET e == Tr[l] IN
              /\ Judge(e.canary = 1 /\ e.kcanary = 1, l, e, "buffer contract")
              /\ ms' = [ms EXCEPT ![e.obj] = WithMsg(KeyStates(e.k).i, e.k)]    \* msg field remembers the key
              /\ Remember(e.k)
           /\ UNCHANGED <<hs, ks, D>>

THmUpdate == /\ Tr[l].e = "HmUpdate"
             /\ LET e == Tr[l]
                    h == ms[e.obj]
                IN  /\ Judge(h.st = "live", l, e, "plan error: update on an HMAC object that is not live")
                    /\ Judge(e.canary = 1 /\ e.dcanary = 1, l, e, "buffer contract")
                    /\ ms' = [ms EXCEPT ![e.obj] = WithMsg(HUpdate(h, e.d), h.msg)]
             /\ UNCHANGED <<hs, ks, D, kc>>

THmFinal == /\ Tr[l].e = "HmFinal"
            /\ LET e == Tr[l]
                   h == ms[e.obj]
                   x == HDigest(HUpdate(KeyStates(e.k).o, HDigest(h)))
               IN  /\ Judge(h.st = "live" /\ h.msg = e.k, l, e, "plan error: finalize with another key or on a dead object")
                   /\ Judge(e.out = x /\ e.canary = 1 /\ e.ocanary = 1, l, e, x)
                   /\ ms' = [ms EXCEPT ![e.obj] = [h EXCEPT !.st = "final"]]
                   /\ Remember(e.k)
            /\ UNCHANGED <<hs, ks, D>>

THmFree == /\ Tr[l].e = "HmFree"
           /\ LET e == Tr[l] IN
              /\ Judge(FreeOK(e), l, e, "free zeroes the whole state object")
              /\ ms' = [ms EXCEPT ![e.obj] = WithMsg(HFreed, <<>>)]
           /\ UNCHANGED <<hs, ks, D, kc>>

\* ---- HKDF
THkdf == /\ Tr[l].e = "Hkdf"
         /\ LET e == Tr[l]
                x == Hkdf(e.key, e.salt, e.info, e.len)
            IN  IF x.wrote
                THEN Judge(e.res = 0 /\ e.out = x.out /\ e.canary = 1, l, e, x)
                ELSE Judge(e.res = -1 /\ e.untouched = 1 /\ e.canary = 1, l, e, "refused with -1, nothing written")
         /\ UNCHANGED <<hs, ms, ks, D, kc>>

\* head of a long one-shot output whose blocks follow as HkdfBlock events
THkdfHead == /\ Tr[l].e = "HkdfHead"
             /\ LET e == Tr[l] IN
                IF e.len <= HkdfMax
                THEN Judge(e.res = 0 /\ e.outlen = e.len /\ e.canary = 1, l, e, "res = 0, exactly len bytes")
                ELSE Judge(e.res = -1 /\ e.untouched = 1 /\ e.canary = 1, l, e, "refused with -1, nothing written")
             /\ UNCHANGED <<hs, ms, ks, D, kc>>

\* head of a long PBKDF2 output whose blocks follow as PbBlock events
TPbHead == /\ Tr[l].e = "PbHead"
           /\ LET e == Tr[l] IN Judge(e.outlen = e.len /\ e.canary = 1, l, e, "exactly len bytes, canaries intact")
           /\ UNCHANGED <<hs, ms, ks, D, kc>>

\* one block of a one-shot output, chained on the previous block taken from the trace
\* (exact by induction over the blocks of one output; see DESIGN.md C13)
THkdfBlock == /\ Tr[l].e = "HkdfBlock"
              /\ LET e   == Tr[l]
                     prk == IF kc.set /\ kc.key = <<e.key, e.salt>> THEN kc.ks ELSE HmacStates(Hmac(e.salt, e.key))
                     x   == SubSeq(HkBlock(prk, e.prev, e.i, e.info), 1, Len(e.cur))
                 IN  /\ Judge(e.cur = x, l, e, x)
                     /\ kc' = [key |-> <<e.key, e.salt>>, set |-> TRUE, ks |-> prk]
              /\ UNCHANGED <<hs, ms, ks, D>>

THkExtract == /\ Tr[l].e = "HkExtract"
              /\ LET e == Tr[l]
                     x == HkExtract(e.key, e.salt)
                 IN  /\ Judge(e.canary = 1, l, e, "buffer contract")
                     /\ ks' = [ks EXCEPT ![e.obj] = [prk |-> x.prk, t |-> x.t, counter |-> x.counter, posn |-> x.posn,
                                                    live |-> TRUE, total |-> 0]]
              /\ UNCHANGED <<hs, ms, D, kc>>

THkExpand == /\ Tr[l].e = "HkExpand"
             /\ LET e == Tr[l]
                    s == ks[e.obj]
                    x == HkExpand(s, e.info, e.len)
                IN  /\ Judge(s.live, l, e, "plan error: expand on an object that was not extracted")
                    /\ Judge(e.res = x.res /\ e.out = x.out /\ e.canary = 1 /\ e.ocanary = 1, l, e, [res |-> x.res, out |-> x.out])
                    /\ Judge(x.st.counter \in 0..255 /\ x.st.posn \in 0..32, l, e, "machine invariant")
                    /\ ks' = [ks EXCEPT ![e.obj] = [prk |-> x.st.prk, t |-> x.st.t, counter |-> x.st.counter,
                                                    posn |-> x.st.posn, live |-> TRUE, total |-> s.total + e.len]]
             /\ UNCHANGED <<hs, ms, D, kc>>

(***************************************************************************)
(* Control-level judgement of one expand call of a long history whose data *)
(* is checked block by block (HkdfBlock events over the concatenation of   *)
(* everything the history served).  Only the object's byte count is        *)
(* tracked: the call returns -1 iff it was asked for at least one byte     *)
(* past the 8160th, and every byte it wrote past the 8160th is zero        *)
(* (tailnz = number of non-zero bytes among those, projected by the        *)
(* harness from the logged output).                                        *)
(***************************************************************************)
THkExpandCtl == /\ Tr[l].e = "HkExpandCtl"
                /\ LET e == Tr[l]
                       s == ks[e.obj]
                       past == e.len > 0 /\ s.total + e.len > HkdfMax
                   IN  /\ Judge(e.res = (IF past THEN -1 ELSE 0), l, e, IF past THEN -1 ELSE 0)
                       /\ Judge(e.tailnz = 0, l, e, "every byte past the 8160th is zero")
                       /\ Judge(e.outlen = e.len /\ e.canary = 1 /\ e.ocanary = 1, l, e, "exactly len bytes, canaries intact")
                       /\ ks' = [ks EXCEPT ![e.obj] = [s EXCEPT !.total = s.total + e.len]]
                /\ UNCHANGED <<hs, ms, D, kc>>

THkFree == /\ Tr[l].e = "HkFree"
           /\ LET e == Tr[l] IN
              /\ Judge(FreeOK(e), l, e, "free zeroes the whole state object")
              /\ ks' = [ks EXCEPT ![e.obj] = NoKdf]
           /\ UNCHANGED <<hs, ms, D, kc>>

(***************************************************************************)
(* Relational (opaque) judgement of key derivation, for dense sweeps that  *)
(* would be too slow to interpret: a long reference output R for given     *)
(* parameters is learned (learn = 1; the same output is also validated by  *)
(* the interpreted specification elsewhere in the run).  Then              *)
(*   KdfPrefix  a one-shot output of len bytes for the same parameters is  *)
(*              the first len bytes of R ("shorter outputs are prefixes of *)
(*              longer ones");                                             *)
(*   HkExtract / HkExpand with op = 1: the object only counts the bytes it *)
(*              has served; each call returns the next bytes of R, zeros   *)
(*              past byte 8160, and -1 iff it was asked to go past it      *)
(*              ("the concatenation equals the one-shot output").          *)
(***************************************************************************)
RefOf(tag) == (CHOOSE p \in D : p[1] = tag)[2]
TKdfLearn == /\ Tr[l].e = "KdfLearn"
             /\ D' = D \cup {<<Tr[l].tag, Tr[l].out>>}
             /\ UNCHANGED <<hs, ms, ks, kc>>
TKdfPrefix == /\ Tr[l].e = "KdfPrefix"
              /\ LET e == Tr[l] IN
                 Judge(Learned(e.tag) /\ e.res = 0 /\ e.canary = 1 /\ e.out = SubSeq(RefOf(e.tag), 1, e.len), l, e,
                       IF Learned(e.tag) THEN SubSeq(RefOf(e.tag), 1, e.len) ELSE "reference was never learned")
              /\ UNCHANGED <<hs, ms, ks, D, kc>>
StreamSlice(R, from, n) == [i \in 1..n |-> IF from + i <= HkdfMax /\ from + i <= Len(R) THEN R[from + i] ELSE 0]
TKdfExtract == /\ Tr[l].e = "KdfExtract"
               /\ ks' = [ks EXCEPT ![Tr[l].obj] = [prk |-> Tr[l].tag, t |-> <<>>, counter |-> 0, posn |-> 0, live |-> TRUE, total |-> 0]]
               /\ UNCHANGED <<hs, ms, D, kc>>
TKdfExpand == /\ Tr[l].e = "KdfExpand"
              /\ LET e == Tr[l]
                     s == ks[e.obj]
                     x == StreamSlice(RefOf(s.prk), s.total, e.len)
                     r == IF e.len > 0 /\ s.total + e.len > HkdfMax THEN -1 ELSE 0
                 IN  /\ Judge(s.live /\ Learned(s.prk) /\ e.out = x /\ e.res = r /\ e.canary = 1 /\ e.ocanary = 1, l, e, [res |-> r, out |-> x])
                     /\ ks' = [ks EXCEPT ![e.obj] = [s EXCEPT !.total = s.total + e.len]]
              /\ UNCHANGED <<hs, ms, D, kc>>

\* ---- PBKDF2
TPbkdf2 == /\ Tr[l].e = "Pbkdf2"
           /\ LET e == Tr[l]
                  x == Pbkdf2(e.pw, e.salt, e.count, e.len)
              IN  Judge(e.out = x /\ e.canary = 1, l, e, x)
           /\ UNCHANGED <<hs, ms, ks, D, kc>>

\* one 32-byte block (or the truncated last one) of a long PBKDF2 output
TPbBlock == /\ Tr[l].e = "PbBlock"
            /\ LET e == Tr[l]
                   x == SubSeq(Pbkdf2F(KeyStates(e.pw), e.salt, e.count, e.i), 1, Len(e.cur))
               IN  /\ Judge(e.cur = x, l, e, x)
                   /\ Remember(e.pw)
            /\ UNCHANGED <<hs, ms, ks, D>>

\* events of the other families (system-level traces): stuttering steps for this specification
Own == {"Reset", "Garbage", "Hash", "HInit", "HReinit", "HUpdate", "HFinal", "HFree", "Hmac", "HmInit", "HmReinit", "HmUpdate",
        "HmFinal", "HmFree", "Hkdf", "HkdfHead", "PbHead", "HkdfBlock", "HkExtract", "HkExpand", "HkExpandCtl", "HkFree",
        "Pbkdf2", "PbBlock", "PbLink", "PbXor", "HashHuge", "KdfLearn", "KdfPrefix", "KdfExtract", "KdfExpand", "HMove", "HInject", "HInjectSkip"}
TForeign == Tr[l].e \notin Own \cup {"Fault", "San", "Hang", "Garbled"} /\ UNCHANGED <<hs, ms, ks, D, kc>>

(***************************************************************************)
(* PBKDF2 with large iteration counts, validated compositionally: the      *)
(* harness records (by link-time interposition) every PRF output U_j the   *)
(* implementation computed inside one tinyjambu_pbkdf2 call.  PbLink       *)
(* checks one link of the chain, U_j = HMAC(P, U_(j-1)) resp.              *)
(* U_1 = HMAC(P, S || INT32BE(i)); PbXor checks T_i = U_1 xor ... xor U_c  *)
(* against the bytes the call returned.  All links and all XORs of a call  *)
(* together are exactly RFC 8018's F; the links are independent, so they   *)
(* spread over the shards.                                                 *)
(***************************************************************************)
TPbLink == /\ Tr[l].e = "PbLink"
           /\ LET e == Tr[l]
                  x == HmacWith(KeyStates(e.pw), IF e.j = 1 THEN e.salt \o Int32BE(e.i) ELSE e.prev)
              IN  /\ Judge(e.cur = x, l, e, x)
                  /\ Remember(e.pw)
           /\ UNCHANGED <<hs, ms, ks, D>>

TPbXor == /\ Tr[l].e = "PbXor"
          /\ LET e == Tr[l]
                 t == FoldLeft(LAMBDA a, u : XorBytes(a, u), Zeros(32), e.us)
             IN  Judge(e.cur = SubSeq(t, 1, Len(e.cur)) /\ Len(e.us) = (IF e.count = 0 THEN 1 ELSE e.count), l, e, t)
          /\ UNCHANGED <<hs, ms, ks, D, kc>>

(***************************************************************************)
(* Messages of 4 GiB and more cannot be interpreted, but C11's statement   *)
(* can still be judged on them: the digest of a message (here "n zero      *)
(* bytes", described, not logged) must not depend on how it was supplied.  *)
(* The first HashHuge event of a description fixes the digest, every later *)
(* one with the same description must agree.  D doubles as the table.      *)
(***************************************************************************)
THashHuge == /\ Tr[l].e = "HashHuge"
             /\ LET e == Tr[l] IN
                /\ Judge(~Learned(e.desc) \/ DigestOfMsg(e.desc) = e.out, l, e,
                         IF Learned(e.desc) THEN DigestOfMsg(e.desc) ELSE "-")
                /\ D' = IF Learned(e.desc) THEN D ELSE D \cup {<<e.desc, e.out>>}
             /\ UNCHANGED <<hs, ms, ks, kc>>

Init == /\ l = 1 /\ InitRegs
        /\ hs = [o \in Objs |-> Garbage] /\ ms = [o \in Objs |-> Garbage]
        /\ ks = [o \in Objs |-> NoKdf] /\ D = {} /\ kc = NoKc

Next == /\ l <= Len(Tr)
        /\ l' = l + 1
        /\ EvalsOK
        /\ \/ TReset \/ TGarbage \/ THash \/ THInit \/ THUpdate \/ THFinal \/ THFree
           \/ THmac \/ THmInit \/ THmUpdate \/ THmFinal \/ THmFree
           \/ TForeign \/ THMove \/ THInject \/ TKdfLearn \/ TKdfPrefix \/ TKdfExtract \/ TKdfExpand \/ THashHuge \/ TPbLink \/ TPbXor \/ THkdf \/ THkdfHead \/ TPbHead \/ THkdfBlock \/ THkExtract \/ THkExpand \/ THkExpandCtl \/ THkFree \/ TPbkdf2 \/ TPbBlock

Spec == Init /\ [][Next]_vars
TraceAccepted == Accepted(Len(Tr))
=============================================================================
