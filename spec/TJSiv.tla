------------------------------- MODULE TJSiv --------------------------------
(***************************************************************************)
(* TinyJAMBU-SIV as documented in tools/sivref/README.md and README.md:    *)
(*                                                                         *)
(* pass 1 (MAC): like AEAD with nonce domain 0x90; the associated data is  *)
(*   absorbed with 0x30/640 steps, the PLAINTEXT with 0x50/long steps      *)
(*   (nothing is encrypted); the 64-bit tag is generated as in AEAD.       *)
(* pass 2 (CTR-like keystream): a fresh state is set up with domain 0xB0   *)
(*   from the nonce  N[0..3] || tag ; for every 4-byte block the domain    *)
(*   0xD0 is added, the long permutation applied, and state bits 64..95    *)
(*   are the keystream.  Nothing is absorbed in pass 2, so the keystream   *)
(*   depends only on the key, the first four nonce bytes and the tag.      *)
(* output: (plaintext xor keystream) || tag.                               *)
(*                                                                         *)
(* Decryption strips the keystream (derived from the received tag) first   *)
(* and then authenticates the candidate plaintext.                         *)
(***************************************************************************)
EXTENDS TJAead

SivMac(key, nonce, ad, m) ==
    LET K  == BytesBits(key)
        S0 == Absorb(Setup(K, nonce, 144), K, ad, 48, PShort)          \* 0x90, 0x30
        S1 == Absorb(S0, K, m, 80, PLong(Len(K)))                       \* 0x50
    IN  Tag(S1, K)

\* n bytes of keystream
SivKs(key, nonce4, tag, n) ==
    LET K  == BytesBits(key)
        S0 == Setup(K, nonce4 \o tag, 176)                              \* 0xB0
        r  == FoldLeft(LAMBDA acc, j :
                          LET S1 == Perm(AddDom(acc.S, 208), K, PLong(Len(K)))   \* 0xD0
                          IN  [S |-> S1, out |-> acc.out \o Squeeze(S1)],
                       [S |-> S0, out |-> <<>>], Idx((n + 3) \div 4))
    IN  SubSeq(r.out, 1, n)

SivEnc(key, nonce, ad, m) ==
    LET t == SivMac(key, nonce, ad, m)
    IN  XorBytes(m, SivKs(key, SubSeq(nonce, 1, 4), t, Len(m))) \o t

SivDec(key, nonce, ad, c) ==
    IF Len(c) < 8 THEN [res |-> -1, m |-> <<>>, wrote |-> FALSE]
    ELSE LET n  == Len(c) - 8
             t  == SubSeq(c, n + 1, n + 8)
             p  == XorBytes(SubSeq(c, 1, n), SivKs(key, SubSeq(nonce, 1, 4), t, n))
             v  == CheckTag(p, SivMac(key, nonce, ad, p), t)
         IN  [res |-> v.res, m |-> v.m, wrote |-> TRUE]
=============================================================================
