------------------------------- MODULE TJPerm -------------------------------
(***************************************************************************)
(* The TinyJAMBU keyed permutation (TinyJAMBU v2, section 3.2): a 128-bit  *)
(* nonlinear feedback shift register.  One step:                           *)
(*                                                                         *)
(*    feedback = s0 (+) s47 (+) ~(s70 & s85) (+) s91 (+) k[i mod klen]     *)
(*    s_j := s_(j+1) for j = 0..126 ;  s127 := feedback                    *)
(*                                                                         *)
(* S is a sequence of 128 BOOLEANs (bit i at index i+1), K the key bits    *)
(* (128, 192 or 256 of them, bit i at index i+1).  The key index restarts  *)
(* at 0 on every call of the permutation, as in the specification's P_n.   *)
(*                                                                         *)
(* Step1/PermBitSerial is the definition of record.  Step32/Perm computes  *)
(* 32 steps with one function constructor; this is sound because the       *)
(* highest tap read while producing the 32 new bits is 31+91 < 128, i.e.   *)
(* none of the new bits feeds back inside the group.  Equality of the two  *)
(* forms is checked by TLC (MC_PermEquiv).  The implementation's           *)
(* pre-inverted key / AND-for-NAND trick is deliberately not modelled.     *)
(***************************************************************************)
EXTENDS TJBits

Feedback(S, kbit) == ((S[1] # S[48]) # (~(S[71] /\ S[86]))) # (S[92] # kbit)

\* one step, using key bit number i (0-based, already reduced mod klen by the caller)
Step1(S, K, i) == Tail(S) \o <<Feedback(S, K[(i % Len(K)) + 1])>>

PermBitSerial(S, K, steps) ==
    FoldLeft(LAMBDA acc, i : Step1(acc, K, i), S, Idx(steps))

\* 32 steps at once; off = (0-based) index of the first key bit used, a multiple of 32
Step32(S, K, off) ==
    SubSeq(S, 33, 128) \o
    [i \in 1..32 |-> ((S[i] # S[i + 47]) # (~(S[i + 70] /\ S[i + 85]))) # (S[i + 91] # K[off + i])]

\* steps must be a multiple of 32 (every count the mode specifications use is a multiple of 128)
Perm(S, K, steps) ==
    FoldLeft(LAMBDA acc, j : Step32(acc, K, (32 * j) % Len(K)), S, Idx(steps \div 32))

\* number of steps of the "long" permutation P_l for each key size
PLong(klen) == CASE klen = 128 -> 1024 [] klen = 192 -> 1152 [] klen = 256 -> 1280
PShort == 640
=============================================================================
