SPECIFICATION Spec
CONSTANTS NObj = 3  MaxOps = 30  SimDepth = 30
INVARIANT PlanOut
CHECK_DEADLOCK FALSE
