-------------------------------- MODULE TJKdf --------------------------------
(***************************************************************************)
(* HKDF (RFC 5869) and PBKDF2 (RFC 8018) over TinyJAMBU-HMAC.              *)
(*                                                                         *)
(* HKDF:   PRK  = HMAC(salt, IKM)          (empty salt = 32 zero bytes,    *)
(*                                          which HMAC's zero padding makes *)
(*                                          the same key)                   *)
(*         T(0) = empty ; T(n) = HMAC(PRK, T(n-1) || info || n), n = 1..255*)
(*         OKM  = first L bytes of T(1) || T(2) || ...  , L <= 255 * 32    *)
(* The incremental object is the machine [prk, t, counter, posn]:          *)
(*   counter = number of the next block (1..255), 0 = exhausted (the byte  *)
(*   wraps after block 255 and that is the terminal state);                *)
(*   posn = bytes of t already handed out (32 = nothing left).             *)
(* A request that cannot be served in full returns -1 and every byte past  *)
(* the 8160th is zero.  The one-shot function refuses L > 8160 outright    *)
(* and writes nothing.                                                     *)
(*                                                                         *)
(* PBKDF2: T_i = U_1 xor ... xor U_c ; U_1 = HMAC(P, S || INT32BE(i)),     *)
(*         U_j = HMAC(P, U_(j-1)) ; DK = first dkLen bytes of T_1 || T_2...*)
(*         a count of 0 behaves as 1.                                      *)
(***************************************************************************)
EXTENDS TJHmac

HkdfMax == 8160

HkExtract(key, salt) == [prk |-> Hmac(salt, key), t |-> Zeros(32), counter |-> 1, posn |-> 32]

\* next block from the machine state
HkBlock(ks, t, counter, info) ==
    HmacWith(ks, (IF counter = 1 THEN <<>> ELSE t) \o info \o <<counter>>)

\* serve len bytes; returns [st, out, res]
HkExpand(st, info, len) ==
    LET left == 32 - st.posn
        n0   == IF left < len THEN left ELSE len
        out0 == SubSeq(st.t, st.posn + 1, st.posn + n0)
        ks   == HmacStates(st.prk)
        \* number of further blocks needed
        nb   == (len - n0 + 31) \div 32
        r    == FoldLeft(LAMBDA acc, j :
                    IF acc.res = -1 THEN acc
                    ELSE IF acc.counter = 0
                         THEN [acc EXCEPT !.res = -1, !.out = acc.out \o Zeros(len - Len(acc.out))]
                         ELSE LET t    == HkBlock(ks, acc.t, acc.counter, info)
                                  need == len - Len(acc.out)
                                  take == IF need < 32 THEN need ELSE 32
                              IN  [t |-> t, counter |-> (acc.counter + 1) % 256, posn |-> take,
                                   out |-> acc.out \o SubSeq(t, 1, take), res |-> 0],
                    [t |-> st.t, counter |-> st.counter, posn |-> st.posn + n0, out |-> out0, res |-> 0],
                    Idx(nb))
    IN  [st  |-> [prk |-> st.prk, t |-> r.t, counter |-> r.counter, posn |-> r.posn],
         out |-> r.out, res |-> r.res]

\* one-shot
Hkdf(key, salt, info, len) ==
    IF len > HkdfMax THEN [res |-> -1, out |-> <<>>, wrote |-> FALSE]
    ELSE LET x == HkExpand(HkExtract(key, salt), info, len)
         IN  [res |-> 0, out |-> x.out, wrote |-> TRUE]

----------------------------------------------------------------------------
Int32BE(i) == << (i \div 16777216) % 256, (i \div 65536) % 256, (i \div 256) % 256, i % 256 >>

Pbkdf2F(ks, salt, count, i) ==
    LET u1 == HmacWith(ks, salt \o Int32BE(i))
        r  == FoldLeft(LAMBDA acc, j : LET u == HmacWith(ks, acc.u) IN [u |-> u, t |-> XorBytes(acc.t, u)],
                       [u |-> u1, t |-> u1], Idx((IF count = 0 THEN 1 ELSE count) - 1))
    IN  r.t

Pbkdf2(pw, salt, count, len) ==
    LET ks == HmacStates(pw)
        nb == (len + 31) \div 32
        all == FoldLeft(LAMBDA acc, j : acc \o Pbkdf2F(ks, salt, count, j + 1), <<>>, Idx(nb))
    IN  SubSeq(all, 1, len)
=============================================================================
