-------------------------------- MODULE TV_Obs --------------------------------
(***************************************************************************)
(* Trace specification of the observer-level contracts: memory (C06),      *)
(* erasure (C20) and leakage (C07).  It accepts the events of every        *)
(* family and judges only what the harness observed around the call, not   *)
(* the cryptographic values (those are TV_Cipher / TV_Hash / TV_Prng's     *)
(* business).  Events named Fault, San, Crash or Hang have no action.      *)
(*                                                                         *)
(* Pairing: an event with pair = 1 is remembered; the next event with      *)
(* pair = 2 is the same call executed with different pre-fills of output   *)
(* buffers and fresh state objects, and must have identical outputs.       *)
(***************************************************************************)
EXTENDS TVBase, TJMem

VARIABLES l, prev
vars == <<l, prev>>

Known == {"Reset", "Enc", "Dec", "DecTag", "Packet", "CheckTag", "DecBig", "Perm", "Garbage", "Hash", "HInit", "HReinit",
          "HUpdate", "HFinal", "HFree", "Hmac", "HmInit", "HmReinit", "HmUpdate", "HmFinal", "HmFree", "Hkdf", "HkExtract",
          "HkExpand", "HkFree", "Pbkdf2", "PInit", "PGen", "PFeed", "PReseed", "PLimit", "PFree", "Clean", "Trng", "DeadState", "HMove"}

None == [e |-> "none"]

Step ==
    /\ Tr[l].e \in Known
    /\ LET e == Tr[l] IN
       /\ Judge(CanariesOK(e), l, e, "a byte outside a declared buffer was written (canary broken)")
       /\ Judge(InputsOK(e), l, e, "an input buffer was modified")
       /\ Judge(FootprintOK(e), l, e, "output footprint differs from the documented size")
       /\ Judge(EraseOK(e), l, e, "erasure: bytes left non-zero / wrong range zeroed")
       /\ Judge(TaintOK(e), l, e, "a branch or address depends on a secret (memcheck report inside the call)")
       /\ Judge(Field(e, "evals", 1) = 1, l, e, "the object argument of the call was evaluated more than once")
       /\ IF Field(e, "pair", 0) = 1 THEN prev' = e
          ELSE IF Field(e, "pair", 0) = 2
               THEN /\ Judge(prev.e = e.e /\ Outputs(prev) = Outputs(e), l, e,
                             "outputs differ between two runs that differ only in the pre-fill of outputs and fresh state objects")
                    /\ prev' = None
               ELSE prev' = prev

Init == l = 1 /\ InitRegs /\ prev = None
Next == l <= Len(Tr) /\ l' = l + 1 /\ Step
Spec == Init /\ [][Next]_vars
TraceAccepted == Accepted(Len(Tr))
=============================================================================
