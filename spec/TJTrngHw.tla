------------------------------- MODULE TJTrngHw -------------------------------
(***************************************************************************)
(* The entropy back ends for platforms without a Unix entropy call         *)
(* (src/random/tinyjambu-trng-{due,stm32,esp,windows}.c), each as a driver *)
(* talking to its device, written as an acceptor of the events the         *)
(* conformance harness (harness/hwtrng.c) logs: Accept(s, ev) is the state *)
(* after event ev, or a record with bad = TRUE if the driver may not do    *)
(* (or the device may not answer) ev in state s.                           *)
(*                                                                         *)
(*   due      Arduino Due (SAM3X8E TRNG): once-only initialisation (enable *)
(*            the peripheral clock, CR := key|enable, IDR := DATRDY), then *)
(*            per word: poll ISR.DATRDY at most Budget times, read ODATA;  *)
(*            a word that is not ready in time is replaced by the marker   *)
(*            0xABADBEEF and the call reports failure, but all Words words *)
(*            are still produced (the buffer is always fully written)      *)
(*   stm32    Words calls of HAL_RNG_GenerateRandomNumber on handle hrng;  *)
(*            a call that does not return HAL_OK yields the marker         *)
(*   esp32    Words calls of esp_random(); always reports success          *)
(*   esp8266  Words reads of the RNG register (memory mapped: the harness  *)
(*            cannot see the individual reads, only the result)            *)
(*   windows  CryptAcquireContextW(VERIFYCONTEXT|SILENT), CryptGenRandom   *)
(*            of 32 bytes, CryptReleaseContext iff acquired; zeros on      *)
(*            failure; no provider handle left open                        *)
(*                                                                         *)
(* The contract of tinyjambu-trng.h that all of them must meet is stated   *)
(* as ContractOK and checked by TLC over every behaviour of the acceptor   *)
(* (MC_TrngHw): the call returns after a bounded number of device accesses *)
(* with all 4 * Words bytes written, reports success exactly when every    *)
(* byte came from the device, and returns the device's bytes in order.     *)
(***************************************************************************)
EXTENDS Naturals, Sequences, FiniteSets

CONSTANTS Words,          \* 32-bit words per request (8)
          Budget          \* Due: polls of the ready flag per word (100)

Marker == <<239, 190, 173, 171>>                 \* 0xABADBEEF, little-endian
DueKey == <<1, 71, 78, 82>>                      \* TRNG_CR_KEY(0x524E47) | TRNG_CR_ENABLE, little-endian
Backends == {"due", "stm32", "esp32", "esp8266", "windows"}

Fresh(be) == [be |-> be, pc |-> "idle", init |-> FALSE, w |-> 0, cnt |-> 0, okf |-> TRUE, out |-> <<>>, dev |-> 0,
              acc |-> 0, open |-> 0, bad |-> FALSE]
Bad(s) == [s EXCEPT !.bad = TRUE]
Has(ev, f) == f \in DOMAIN ev
Is(ev, e, op) == ev.e = e /\ (op = "" \/ (Has(ev, "op") /\ ev.op = op))

Begin(s, pc) == [s EXCEPT !.pc = pc, !.w = 0, !.cnt = Budget, !.okf = TRUE, !.out = <<>>, !.dev = 0, !.acc = 0]
\* a word (from the device, or the marker) has been produced
Word(s, v, fromdev) ==
    LET s1 == [s EXCEPT !.out = s.out \o v, !.w = s.w + 1, !.cnt = Budget, !.acc = s.acc + 1,
                        !.dev = IF fromdev THEN s.dev + 1 ELSE s.dev, !.okf = s.okf /\ fromdev]
    IN  [s1 EXCEPT !.pc = IF s.w + 1 = Words THEN "ret" ELSE IF s.be = "due" THEN "poll" ELSE s.pc]
Tick(s) == [s EXCEPT !.acc = s.acc + 1]
IsWord(v) == Len(v) = 4 /\ \A i \in 1..4 : v[i] \in 0..255

Ret(s, ev, out) ==
    IF ev.ok = (IF s.okf THEN 1 ELSE 0) /\ ev.out = out /\ Len(ev.out) = 4 * Words /\ ev.canary = 1 /\ s.open = 0
    THEN [s EXCEPT !.pc = "idle"] ELSE Bad(s)

AcceptDue(s, ev) ==
    CASE s.pc = "idle" /\ Is(ev, "Call", "") -> Begin(s, IF s.init THEN "poll" ELSE "pmc")
      [] s.pc = "pmc" /\ Is(ev, "Dev", "pmc_enable_periph_clk") /\ ev.arg = 41 -> Tick([s EXCEPT !.pc = "cr"])
      [] s.pc = "cr" /\ Is(ev, "Dev", "W") /\ ev.reg = "CR" /\ ev.v = DueKey -> Tick([s EXCEPT !.pc = "idr"])
      [] s.pc = "idr" /\ Is(ev, "Dev", "W") /\ ev.reg = "IDR" /\ ev.v = <<1, 0, 0, 0>> -> Tick([s EXCEPT !.pc = "poll", !.init = TRUE])
      [] s.pc = "poll" /\ Is(ev, "Dev", "R") /\ ev.reg = "ISR" /\ IsWord(ev.v) ->
            IF ev.v[1] % 2 = 1 THEN Tick([s EXCEPT !.pc = "odata"])
            ELSE IF s.cnt - 1 <= 0 THEN Word(s, Marker, FALSE)           \* gave up on this word
            ELSE Tick([s EXCEPT !.cnt = s.cnt - 1])
      [] s.pc = "odata" /\ Is(ev, "Dev", "R") /\ ev.reg = "ODATA" /\ IsWord(ev.v) -> Word(s, ev.v, TRUE)
      [] s.pc = "ret" /\ Is(ev, "Ret", "") -> Ret(s, ev, s.out)
      [] OTHER -> Bad(s)

AcceptStm32(s, ev) ==
    CASE s.pc = "idle" /\ Is(ev, "Call", "") -> Begin(s, "hal")
      [] s.pc = "hal" /\ Is(ev, "Dev", "hal") /\ ev.handle = 1 /\ IsWord(ev.v) ->
            IF ev.st = 0 THEN Word(s, ev.v, TRUE) ELSE Word(s, Marker, FALSE)
      [] s.pc = "ret" /\ Is(ev, "Ret", "") -> Ret(s, ev, s.out)
      [] OTHER -> Bad(s)

AcceptEsp32(s, ev) ==
    CASE s.pc = "idle" /\ Is(ev, "Call", "") -> Begin(s, "rnd")
      [] s.pc = "rnd" /\ Is(ev, "Dev", "esp_random") /\ IsWord(ev.v) -> Word(s, ev.v, TRUE)
      [] s.pc = "ret" /\ Is(ev, "Ret", "") -> Ret(s, ev, s.out)
      [] OTHER -> Bad(s)

Rep(v, n) == [i \in 1..(4 * n) |-> v[((i - 1) % 4) + 1]]
AcceptEsp8266(s, ev) ==
    CASE s.pc = "idle" /\ Is(ev, "Call", "") -> [Begin(s, "ret") EXCEPT !.dev = Words, !.w = Words]
      [] s.pc = "ret" /\ Is(ev, "Ret", "") /\ Has(ev, "reg") /\ IsWord(ev.reg) -> Ret(s, ev, Rep(ev.reg, Words))
      [] OTHER -> Bad(s)

Zeros(n) == [i \in 1..n |-> 0]
AcceptWindows(s, ev) ==
    CASE s.pc = "idle" /\ Is(ev, "Call", "") -> Begin(s, "acq")
      [] s.pc = "acq" /\ Is(ev, "Dev", "acquire") /\ ev.container = 0 /\ ev.provider = 0 /\ ev.type = 1 /\ ev.verify = 1 /\ ev.silent = 1 ->
            IF ev.ok = 1 THEN Tick([s EXCEPT !.pc = "gen", !.open = 1])
            ELSE Tick([s EXCEPT !.pc = "ret", !.okf = FALSE, !.out = Zeros(4 * Words)])
      [] s.pc = "gen" /\ Is(ev, "Dev", "gen") /\ ev.handle = 1 /\ ev.len = 4 * Words ->
            IF ev.ok = 1 THEN Tick([s EXCEPT !.pc = "rel", !.out = ev.v, !.dev = Words])
            ELSE Tick([s EXCEPT !.pc = "rel", !.okf = FALSE, !.out = Zeros(4 * Words)])
      [] s.pc = "rel" /\ Is(ev, "Dev", "release") /\ ev.handle = 1 /\ ev.flags = 0 -> Tick([s EXCEPT !.pc = "ret", !.open = 0])
      [] s.pc = "ret" /\ Is(ev, "Ret", "") /\ Has(ev, "open") /\ ev.open = 0 -> Ret(s, ev, s.out)
      [] OTHER -> Bad(s)

Accept(s, ev) ==
    IF s.bad THEN s
    ELSE CASE s.be = "due" -> AcceptDue(s, ev)
           [] s.be = "stm32" -> AcceptStm32(s, ev)
           [] s.be = "esp32" -> AcceptEsp32(s, ev)
           [] s.be = "esp8266" -> AcceptEsp8266(s, ev)
           [] s.be = "windows" -> AcceptWindows(s, ev)

(***************************************************************************)
(* Which back end a build gets (src/random/tinyjambu-trng-select.h): a     *)
(* priority list over the compiler's platform macros.  S is the set of     *)
(* macros defined; "RNG" stands for the STM32 HAL configuration having the *)
(* RNG module enabled, "FAMILY" for one of the STM32 device-family macros. *)
(* The result is the set of TINYJAMBU_TRNG_* selection macros defined and, *)
(* for STM32, the RNG handle the back end will pass to the HAL.            *)
(***************************************************************************)
WinMacros  == {"_WIN32", "__WIN32__", "_WIN64", "__CYGWIN__", "__CYGWIN32__"}
UnixMacros == {"__linux__", "__APPLE__", "__MACH__", "__FreeBSD__", "__unix__", "__ANDROID__", "__OpenBSD__"}
DueMacros  == {"__arm__", "__SAM3X8E__", "ARDUINO"}
EspMacros  == {"ESP8266", "ESP32"}
PlatformMacros == WinMacros \cup UnixMacros \cup DueMacros \cup EspMacros \cup {"USE_HAL_DRIVER", "RNG", "FAMILY"}

Select(S) ==
    IF S \cap WinMacros # {} THEN [defined |-> {"WINDOWS"}, handle |-> ""]
    ELSE IF S \cap UnixMacros # {} THEN [defined |-> {"DEV_RANDOM"}, handle |-> ""]
    ELSE IF "USE_HAL_DRIVER" \in S THEN
         IF "RNG" \in S /\ "FAMILY" \in S THEN [defined |-> {"STM32"}, handle |-> "hrng"]
         ELSE [defined |-> {"NONE", "MIXER"}, handle |-> ""]
    ELSE IF DueMacros \subseteq S THEN [defined |-> {"DUE"}, handle |-> ""]
    ELSE IF S \cap EspMacros # {} THEN [defined |-> {"ESP"}, handle |-> ""]
    ELSE [defined |-> {"NONE"}, handle |-> ""]

\* exactly one source is selected, whatever the platform says about itself
Sources == {"WINDOWS", "DEV_RANDOM", "STM32", "DUE", "ESP", "NONE"}
SelectTotal == \A S \in SUBSET PlatformMacros : Cardinality(Select(S).defined \cap Sources) = 1

(***************************************************************************)
(* The contract of tinyjambu-trng.h, as a predicate of the acceptor state. *)
(***************************************************************************)
MaxAccesses == Words * (Budget + 1) + 3
ContractOK(s) ==
    /\ s.acc <= MaxAccesses                                         \* never an unbounded wait
    /\ s.pc = "ret" =>
         /\ (s.be = "esp8266" \/ Len(s.out) = 4 * Words)             \* the buffer is fully written, success or not
                                                                    \* (esp8266: the result is only known at Ret)
         /\ s.okf <=> s.dev = Words                                 \* success iff every byte came from the device
         /\ s.open = 0                                              \* nothing left open
    /\ s.pc = "idle" => s.open = 0
=============================================================================
