----------------------------- MODULE DrbgCtlInd -----------------------------
(***************************************************************************)
(* The control skeleton of the PRNG (the same transitions as MC_DrbgCtl,   *)
(* without history variables) typed for Apalache, to discharge C16's bound *)
(* for UNBOUNDED generate sizes, limits, feeds and history lengths by an   *)
(* inductive invariant:                                                    *)
(*     Init => IndInv                 (apalache-mc --init=Init --length=0) *)
(*     IndInv /\ Next => IndInv'      (--init=IndInit --length=1)          *)
(* IndInv contains  since <= 32 * (counter - 1)  and, in the emit state,   *)
(* counter <= limit, which together give  since' <= 32 * limit  at every   *)
(* emitted block (recorded in the ghost emitok).                           *)
(***************************************************************************)
EXTENDS Integers

VARIABLES
    \* @type: Int;
    pc,        \* 0 idle, 1 check, 2 emit
    \* @type: Int;
    rem,
    \* @type: Int;
    counter,
    \* @type: Int;
    limit,
    \* @type: Int;
    since,
    \* @type: Bool;
    emitok

Clamp == 1048576
LimitBlocks(x) == LET c == IF x > Clamp THEN Clamp ELSE x
                      b == (c + 31) \div 32
                  IN  IF b = 0 THEN 1 ELSE b

Init == /\ pc = 0 /\ rem = 0 /\ counter = 1 /\ limit = 32 /\ since = 0 /\ emitok = TRUE

Reseed == /\ pc = 0 /\ counter' = 1 /\ since' = 0 /\ UNCHANGED <<pc, rem, limit, emitok>>
Feed == /\ pc = 0 /\ counter' = counter + 1 /\ UNCHANGED <<pc, rem, limit, since, emitok>>
SetLimit == /\ pc = 0 /\ \E x \in Int : x >= 0 /\ limit' = LimitBlocks(x)
            /\ UNCHANGED <<pc, rem, counter, since, emitok>>
StartGenerate == /\ pc = 0 /\ \E s \in Int : s >= 0 /\ rem' = s /\ pc' = (IF s = 0 THEN 0 ELSE 1)
                 /\ UNCHANGED <<counter, limit, since, emitok>>
CheckNoReseed == /\ pc = 1 /\ counter <= limit /\ pc' = 2 /\ UNCHANGED <<rem, counter, limit, since, emitok>>
EntropyRequest == /\ pc = 1 /\ counter > limit /\ counter' = 1 /\ since' = 0 /\ pc' = 2
                  /\ UNCHANGED <<rem, limit, emitok>>
EmitBlock == /\ pc = 2
             /\ LET n == IF rem < 32 THEN rem ELSE 32 IN
                /\ since' = since + n
                /\ rem' = rem - n
                /\ pc' = (IF rem - n = 0 THEN 0 ELSE 1)
                /\ emitok' = (since + n <= 32 * limit)
             /\ counter' = counter + 1
             /\ UNCHANGED limit

Next == Reseed \/ Feed \/ SetLimit \/ StartGenerate \/ CheckNoReseed \/ EntropyRequest \/ EmitBlock

IndInv == /\ pc \in {0, 1, 2}
          /\ rem >= 0 /\ counter >= 1 /\ limit >= 1 /\ limit <= 32768 /\ since >= 0
          /\ since <= 32 * (counter - 1)
          /\ (pc = 0) <=> (rem = 0)
          /\ (pc = 2) => counter <= limit
          /\ emitok

\* arbitrary state satisfying the invariant (inductive step)
IndInit == /\ pc \in Int /\ rem \in Int /\ counter \in Int /\ limit \in Int /\ since \in Int /\ emitok \in BOOLEAN
           /\ IndInv

\* C16
ReseedBoundHolds == emitok
=============================================================================
