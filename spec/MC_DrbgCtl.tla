----------------------------- MODULE MC_DrbgCtl -----------------------------
(***************************************************************************)
(* Design-level control model of the PRNG (C16, C17), data-abstract.       *)
(*                                                                         *)
(* State: counter (reseed_counter), limit (in 32-byte blocks), since =     *)
(* bytes emitted since the last request to the entropy source, seeded =    *)
(* what the last init/reseed reported.  A generate call is unrolled into   *)
(* per-block steps  CheckReseed -> [EntropyRequest] -> EmitBlock  because  *)
(* that is the grain at which the property speaks ("a lowered limit takes  *)
(* effect at the next generated block").  The environment chooses every    *)
(* delivery in {full, short, none}.                                        *)
(*                                                                         *)
(* C16  at every EmitBlock: since' <= 32 * limit; Feed never decreases     *)
(*      counter; SetLimit maps 0 -> 1 block, rounds up, clamps at 2^20.    *)
(* C17  an init/reseed reports success iff the delivery was full; after a  *)
(*      failed delivery the generator keeps running (no state is a dead    *)
(*      end: every API action stays enabled).                              *)
(*                                                                         *)
(* hist / dels record the API-level history for plan generation and are    *)
(* hidden from the exhaustive search by VIEW.                              *)
(***************************************************************************)
EXTENDS Naturals, Integers, Sequences, SequencesExt, FiniteSets, TLC, Json

CONSTANTS Sizes,      \* generate sizes offered
          Limits,     \* arguments of set_reseed_limit offered
          FeedLens,   \* feed lengths offered (data-abstract: only recorded in the plan)
          MaxCounter, \* state constraint on the counter (feeds can raise it without bound)
          MaxOps,     \* bound on the number of API calls in a history
          SimDepth

VARIABLES pc,        \* "idle" | "check" | "emit"   (inside a generate call when not idle)
          rem,       \* bytes still to generate in the current call
          counter, limit, since, seeded, inited, nops, lastemit,
          hist, dels
vars == <<pc, rem, counter, limit, since, seeded, inited, nops, lastemit, hist, dels>>
view == <<pc, rem, counter, limit, since, seeded, inited, nops, lastemit>>

Deliveries == {"full", "short", "none"}
Clamp == 1048576
LimitBlocks(x) == LET c == IF x > Clamp THEN Clamp ELSE x
                      b == (c + 31) \div 32
                  IN  IF b = 0 THEN 1 ELSE b

Init == /\ pc = "idle" /\ rem = 0 /\ counter = 0 /\ limit = 0 /\ since = 0 /\ seeded = FALSE
        /\ inited = FALSE /\ nops = 0 /\ lastemit = 0 /\ hist = <<>> /\ dels = <<>>

Op(o) == /\ nops < MaxOps /\ nops' = nops + 1 /\ hist' = Append(hist, o)

\* instantiate: one entropy request
DoInit(d) ==
    /\ pc = "idle"
    /\ Op([op |-> "pinit", arg |-> 0])
    /\ dels' = Append(dels, d)
    /\ inited' = TRUE /\ counter' = 1 /\ limit' = 32 /\ since' = 0
    /\ seeded' = (d = "full")
    /\ UNCHANGED <<pc, rem, lastemit>>

DoReseed(d) ==
    /\ pc = "idle" /\ inited
    /\ Op([op |-> "preseed", arg |-> 0])
    /\ dels' = Append(dels, d)
    /\ counter' = 1 /\ since' = 0 /\ seeded' = (d = "full")
    /\ UNCHANGED <<pc, rem, limit, inited, lastemit>>

DoFeed(n) ==
    /\ pc = "idle" /\ inited
    /\ Op([op |-> "pfeed", arg |-> n])
    /\ counter' = counter + 1
    /\ UNCHANGED <<pc, rem, limit, since, seeded, inited, dels, lastemit>>

DoSetLimit(x) ==
    /\ pc = "idle" /\ inited
    /\ Op([op |-> "plimit", arg |-> x])
    /\ limit' = LimitBlocks(x)
    /\ UNCHANGED <<pc, rem, counter, since, seeded, inited, dels, lastemit>>

\* generate(size): enter the block loop (size 0 returns at once)
StartGenerate(size) ==
    /\ pc = "idle" /\ inited
    /\ Op([op |-> "pgen", arg |-> size])
    /\ rem' = size
    /\ pc' = IF size = 0 THEN "idle" ELSE "check"
    /\ UNCHANGED <<counter, limit, since, seeded, inited, dels, lastemit>>

\* top of the loop: the limit is tested before EVERY block
CheckNoReseed ==
    /\ pc = "check" /\ counter <= limit
    /\ pc' = "emit"
    /\ UNCHANGED <<rem, counter, limit, since, seeded, inited, nops, hist, dels, lastemit>>

EntropyRequest(d) ==
    /\ pc = "check" /\ counter > limit
    /\ dels' = Append(dels, d)
    /\ counter' = 1 /\ since' = 0 /\ seeded' = (d = "full")
    /\ pc' = "emit"
    /\ UNCHANGED <<rem, limit, inited, nops, hist, lastemit>>

EmitBlock ==
    /\ pc = "emit"
    /\ LET n == IF rem < 32 THEN rem ELSE 32 IN
       /\ since' = since + n
       /\ lastemit' = n
       /\ rem' = rem - n
       /\ pc' = IF rem - n = 0 THEN "idle" ELSE "check"
    /\ counter' = counter + 1
    /\ UNCHANGED <<limit, seeded, inited, nops, hist, dels>>

Next == \/ \E d \in Deliveries : DoInit(d) \/ DoReseed(d) \/ EntropyRequest(d)
        \/ \E n \in FeedLens : DoFeed(n)
        \/ \E x \in Limits : DoSetLimit(x)
        \/ \E s \in Sizes : StartGenerate(s)
        \/ CheckNoReseed \/ EmitBlock

Spec == Init /\ [][Next]_vars
FairSpec == Spec /\ WF_vars(CheckNoReseed) /\ WF_vars(EmitBlock) /\ WF_vars(\E d \in Deliveries : EntropyRequest(d))

Bounded == counter <= MaxCounter

----------------------------------------------------------------------------
TypeOK == /\ pc \in {"idle", "check", "emit"}
          /\ inited => (counter >= 1 /\ limit \in 1..32768)

\* C16: never more than L = 32 * limit bytes between two entropy requests, L as in effect at that block
ReseedBound == [][(pc = "emit") => since' <= 32 * limit]_vars

\* the inductive reason: the counter is one more than the blocks (and feeds) since the last request
SinceVsCounter == inited => since <= 32 * (counter - 1)

\* feeding only ever brings the next reseed closer
FeedMonotone == [][(hist' # hist /\ Last(hist').op = "pfeed") => counter' > counter]_vars

\* the limit: minimum one block, rounded up, clamped to 1 MiB
LimitRule == [][(hist' # hist /\ Last(hist').op = "plimit") =>
                  LET x == Last(hist').arg IN
                  /\ limit' >= 1 /\ limit' <= 32768
                  /\ (x <= Clamp /\ x > 0) => (32 * limit' >= x /\ 32 * (limit' - 1) < x)
                  /\ (x = 0) => limit' = 1
                  /\ (x > Clamp) => limit' = 32768]_vars

\* C17: the reported status is truthful
TruthfulStatus == [][(dels' # dels) => (seeded' <=> (Last(dels') = "full"))]_vars

\* C17: a failed delivery never wedges the generator: from every idle state every API call is enabled
NeverStuck == (pc = "idle" /\ inited /\ nops < MaxOps) =>
                 /\ \A s \in Sizes : ENABLED StartGenerate(s)
                 /\ ENABLED DoReseed("none")

\* liveness (under FairSpec): every generate call returns
GenerateReturns == (pc # "idle") ~> (pc = "idle")

PlanOut == Len(hist) < SimDepth \/ pc # "idle" \/ PrintT(<<"PLAN", ToJson([ops |-> hist, dels |-> dels])>>)
=============================================================================
