-------------------------------- MODULE TJMem --------------------------------
(***************************************************************************)
(* The buffer contract of the public API (C06), the erasure contract (C20) *)
(* and the leakage contract (C07), as predicates over recorded events.     *)
(*                                                                         *)
(* What the harness arranges and observes for every call (no source hook): *)
(*  - each caller-owned buffer and state object is its own mapping fenced  *)
(*    by PROT_NONE pages, placed flush against the trailing or the leading *)
(*    guard page, the slack filled with a canary: an access outside the    *)
(*    declared range is a Fault event or a broken canary (canary = 0);     *)
(*  - buffers the contract says are read-only are mapped read-only for the *)
(*    duration of the call; a copy taken before the call is compared after *)
(*    it (inmod = 1 if an input changed);                                  *)
(*  - output buffers have exactly the documented size (mlen+8, clen-8,     *)
(*    outlen, 32, sizeof(state)); each call is executed twice with         *)
(*    different pre-fills of the output and of fresh state objects: equal  *)
(*    outputs show that every output byte was written and that nothing     *)
(*    read depends on memory the library did not initialise;               *)
(*  - under the sanitizer and valgrind builds a report is a San / Fault    *)
(*    event; under the taint build "taint" counts memcheck reports raised  *)
(*    inside the call while the secrets were marked undefined.             *)
(*                                                                         *)
(* No specification action matches a Fault, San, Crash or Hang event, so   *)
(* such an event is always a rejection.                                    *)
(***************************************************************************)
EXTENDS Naturals, Integers, Sequences

Has(e, f) == f \in DOMAIN e
Field(e, f, d) == IF Has(e, f) THEN e[f] ELSE d

\* canaries intact around every buffer of the call, inputs unmodified
CanariesOK(e) == /\ Field(e, "canary", 1) = 1 /\ Field(e, "ocanary", 1) = 1
                 /\ Field(e, "dcanary", 1) = 1 /\ Field(e, "kcanary", 1) = 1
InputsOK(e) == Field(e, "inmod", 0) = 0

\* exact output footprint as a function of the length arguments
FootprintOK(e) ==
    CASE e.e = "Enc"      -> Len(e.out) = Len(e.m) + 8 /\ e.clen = Len(e.m) + 8
      [] e.e = "Dec"      -> IF Len(e.c) >= 8 THEN (e.res = 0 => e.mlen = Len(e.c) - 8) /\ Len(e.mout) = Len(e.c) - 8 /\ e.res \in {0, -1}
                             ELSE e.res < 0 /\ e.untouched = 1
      [] e.e = "DecBig"   -> e.res = 0 => e.mlen = e.clen - 8
      [] e.e = "Hash"     -> Len(e.out) = 32
      [] e.e = "HFinal"   -> Len(e.out) = 32
      [] e.e = "Hmac"     -> Len(e.out) = 32
      [] e.e = "HmFinal"  -> Len(e.out) = 32
      [] e.e = "Hkdf"     -> IF e.len <= 8160 THEN e.res = 0 /\ (Has(e, "out") => Len(e.out) = e.len)
                             ELSE e.res = -1 /\ e.untouched = 1
      [] e.e = "HkExpand" -> Len(e.out) = e.len
      [] e.e = "Pbkdf2"   -> Len(e.out) = e.len
      [] e.e = "PGen"     -> Has(e, "out") => Len(e.out) = e.size
      [] e.e = "Perm"     -> Len(e.out) = 16 /\ e.keysame = 1
      [] OTHER            -> TRUE

\* C20: free zeroes the whole public state object; clean zeroes exactly the requested bytes
IsFree(e) == e.e \in {"HFree", "HmFree", "HkFree", "PFree"}
\* size = sizeof the public state type in the header the harness was compiled against (56/56/72/96 today)
\* DeadState: the state object an all-in-one function kept on its own stack.  maxrun is the longest non-trivial stretch
\* of the image the object had just before its free that is found in the dead stack after the call.  Single values of
\* the algorithm (a digest, a block: at most MaxUnit bytes) may survive as scratch copies - those are not the object -
\* but a longer stretch is (part of) the object itself and must have been wiped ("same": the image stems from the same
\* computation; "dirty": the call did run over the poisoned region; windows > 0: the search was not vacuous).
MaxUnit == 32
EraseOK(e) ==
    CASE IsFree(e)        -> e.nonzero = 0 /\ e.size >= 1 /\ e.canary = 1
      [] e.e = "Clean"    -> e.nonzero = 0 /\ e.canary = 1
      [] e.e = "DeadState" -> e.maxrun <= MaxUnit /\ e.windows > 0 /\ e.same = 1 /\ e.dirty = 1
      [] OTHER            -> TRUE

\* C07: no branch or address inside the call depended on a secret.  The accept/reject verdict of a decryption is
\* public, so a branch on it is allowed; memcheck cannot tell it from other branches on secret-derived data.  When
\* memcheck reports something inside a decrypt / check_tag call, the harness consults the second observer (address
\* traces under lackey: equal for all secrets with the same public shape AND verdict, see TV_Leak) and marks the event
\* verdictonly = 1 if that observer finds the traces independent of the secrets.
TaintOK(e) == Field(e, "taint", 0) = 0 \/ (e.e \in {"Dec", "DecTag", "CheckTag"} /\ Field(e, "verdictonly", 0) = 1)

\* the fields whose equality across the two runs of a pair shows full initialisation
Outputs(e) == [f \in (DOMAIN e \cap {"out", "mout", "res", "clen", "ptout", "first", "last", "nonzero"}) |-> e[f]]
=============================================================================
