------------------------------- MODULE TV_Perm -------------------------------
(***************************************************************************)
(* Trace specification for direct calls of the permutation back end (C05,  *)
(* part 1): tinyjambu_permutation_{128,192,256}(state, rounds).            *)
(* The oracle is the one-bit-per-step definition PermBitSerial, not the    *)
(* accelerated Perm; the key words of the state structure must be          *)
(* unchanged and nothing outside the structure written.                    *)
(***************************************************************************)
EXTENDS TVBase, TJPerm

VARIABLES l
vars == <<l>>

TPerm == /\ Tr[l].e = "Perm"
         /\ LET e == Tr[l]
                x == BitsBytes(PermBitSerial(BytesBits(e.s), BytesBits(e.k), 128 * e.rounds))
            IN  /\ Judge(e.out = x, l, e, x)
                /\ Judge(e.keysame = 1 /\ e.canary = 1, l, e, "only the four state words may change")
TReset == Tr[l].e = "Reset"

Init == l = 1 /\ InitRegs
Next == l <= Len(Tr) /\ l' = l + 1 /\ (TPerm \/ TReset)
Spec == Init /\ [][Next]_vars
TraceAccepted == Accepted(Len(Tr))
=============================================================================
