------------------------------- MODULE TVBase -------------------------------
(***************************************************************************)
(* Common machinery of every trace specification (TV_*.tla).               *)
(*                                                                         *)
(* The trace is an ndjson file named by the environment variable TRACE;    *)
(* one event per public call of the implementation, logged at its return.  *)
(* A trace specification consumes exactly one event per step: variable l   *)
(* is the index of the next event.  Acceptance is by POSTCONDITION: TLC    *)
(* must have reached depth Len(Tr)+1 (every event consumed) and no event   *)
(* may have been flagged.                                                  *)
(*                                                                         *)
(* Flagging instead of blocking: when an event is not a behaviour of the   *)
(* specification the step is still taken, a line                           *)
(*     {"mismatch": l, "id": event id, "expected": what the spec expected}   *)
(* is printed and TLC register 1 is incremented, so that the rest of the   *)
(* trace is still examined (a blocking trace spec stops at the first       *)
(* rejection and leaves the remainder unchecked).  Runs use -workers 1.    *)
(***************************************************************************)
EXTENDS Naturals, Sequences, TLC, TLCExt, Json, IOUtils

Tr == ndJsonDeserialize(IOEnv.TRACE)

\* count a rejection and say why; always TRUE so the step is taken
Flag(l, e, expected) ==
    /\ PrintT(ToJson([mismatch |-> l, id |-> e.id, expected |-> expected]))
    /\ TLCSet(1, TLCGet(1) + 1)

Judge(ok, l, e, expected) == IF ok THEN TRUE ELSE Flag(l, e, expected)

InitRegs == TLCSet(1, 0)

Accepted(n) ==
    /\ TLCGet("stats").diameter = n + 1
    /\ TLCGet(1) = 0
=============================================================================
