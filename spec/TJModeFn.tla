------------------------------ MODULE TJModeFn ------------------------------
(***************************************************************************)
(* The functional specification's value for a call of the mode machines    *)
(* (TJMode), in the shape of the machine's Verdict.  Used by MC_Mode (the  *)
(* refinement invariant) and by TV_Mode (calls answered by the real        *)
(* permutation are judged by the function as well as by the machine).      *)
(***************************************************************************)
EXTENDS TJMode, TJSiv, TJHash

Functional(c) ==
    CASE c.op = "aenc" -> [res |-> 0, out |-> AeadEnc(c.k, c.n, c.ad, c.x), wrote |-> TRUE]
      [] c.op = "senc" -> [res |-> 0, out |-> SivEnc(c.k, c.n, c.ad, c.x), wrote |-> TRUE]
      [] c.op = "hash" -> [res |-> 0, out |-> Hash(c.x), wrote |-> TRUE]
      [] c.op = "adec" -> LET r == AeadDec(c.k, c.n, c.ad, c.x) IN [res |-> r.res, out |-> r.m, wrote |-> r.wrote]
      [] c.op = "sdec" -> LET r == SivDec(c.k, c.n, c.ad, c.x) IN [res |-> r.res, out |-> r.m, wrote |-> r.wrote]
=============================================================================
