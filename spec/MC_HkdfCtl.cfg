SPECIFICATION Spec
CONSTANTS Lens = {100, 4000, 8127, 8128, 8129, 8159, 8160, 8161}  MaxTotal = 8400  SimDepth = 1000  B = 32  NBlocks = 255
VIEW view
INVARIANT ServesRfcStream
INVARIANT CounterRange
PROPERTY Terminal
CHECK_DEADLOCK FALSE
