------------------------------- MODULE TV_Prng -------------------------------
(***************************************************************************)
(* Trace specification for the PRNG (C15, C16, C17).                       *)
(*                                                                         *)
(* Events: PInit, PGen, PFeed, PReseed, PLimit, PFree on objects 0..7.     *)
(* Every event carries "ent", the entropy requests made inside the call in *)
(* order: [n, asked, ud, bytes, os, at] = bytes the source reported, bytes *)
(* asked for, whether the user-data pointer was the registered one, the    *)
(* delivered bytes, whether the built-in system source served it, and (for *)
(* generate) how many output bytes had been written when it was made.      *)
(*                                                                         *)
(* Two levels:                                                             *)
(*  data (ctl = 0)  the machine of TJDrbg is advanced with the real hash;  *)
(*                  every output byte must equal the machine's - which     *)
(*                  pins the position of every automatic reseed because    *)
(*                  every delivery carries different bytes;                *)
(*  control (ctl = 1) only counter / limit / since are tracked (same       *)
(*                  transition structure, TJDrbg!GenerateCtl); the number  *)
(*                  and positions of the requests inside the call must be  *)
(*                  the control machine's.  Used for histories too long to *)
(*                  interpret (1 MiB limits).                              *)
(*                                                                         *)
(* since[o] = bytes emitted since the last entropy request of object o;    *)
(* C16's bound is evaluated at every request and at the end of every call. *)
(***************************************************************************)
EXTENDS TVBase, TJDrbg

VARIABLES l, ps, since

vars == <<l, ps, since>>
Objs == 0..7
Dead == [V |-> <<>>, C |-> <<>>, counter |-> 0, limit |-> 0, live |-> FALSE]
Mk(s) == [V |-> s.V, C |-> s.C, counter |-> s.counter, limit |-> s.limit, live |-> TRUE]

\* the delivery records as the specification wants them
Del(x) == [n |-> x.n, bytes |-> x.bytes, os |-> x.os]
Dels(ent) == [i \in 1..Len(ent) |-> Del(ent[i])]

\* every request asked for a full seed and handed over the registered user-data pointer
RequestsWellFormed(e) == \A i \in 1..Len(e.ent) : e.ent[i].asked = SeedLen /\ e.ent[i].ud = 1

\* Where inside a generate call a request fell is read off the caller's output buffer (bytes already written).
\* An implementation that assembles its output elsewhere and copies it at the end shows 0 everywhere; then the
\* positions are simply not observable at this interface and only the number of requests is judged.
PositionsOK(ent, at) ==
    \/ \A i \in 1..Len(ent) : ent[i].at = 0
    \/ \A i \in 1..Len(at) : i <= Len(ent) => ent[i].at = at[i]

\* no 32-byte block of an output equals its predecessor ("never constant output")
NotConstant(out) ==
    \A j \in 1..((Len(out) \div 32) - 1) : SubSeq(out, 32 * j + 1, 32 * j + 32) # SubSeq(out, 32 * (j - 1) + 1, 32 * j)

(***************************************************************************)
(* C16 inside one generate call made under limit L (bytes): s0 = bytes     *)
(* emitted since the last request when the call starts, at = output        *)
(* offsets of the requests made inside the call.  Every block is emitted   *)
(* under the limit in effect at that block (MC_DrbgCtl!ReseedBound): the   *)
(* bytes emitted before the first request of the call, counted from the    *)
(* previous request, stay within L - unless the call emits nothing before  *)
(* it, which is what happens when the limit has just been lowered below    *)
(* what was already emitted ("takes effect at the next generated block").  *)
(***************************************************************************)
GapsOK(s0, at, size, L) ==
    /\ \A i \in 1..Len(at) :
          (IF i = 1 THEN (IF at[1] = 0 THEN 0 ELSE s0 + at[1]) ELSE at[i] - at[i - 1]) <= L
    /\ (IF Len(at) = 0 THEN (IF size = 0 THEN 0 ELSE s0 + size) ELSE size - at[Len(at)]) <= L

LimitOf(e) == IF e.top > 0 \/ e.hi >= 64 THEN 1073741824 ELSE e.hi * 16777216 + e.lo   \* anything >= 2^30 clamps alike

TReset == /\ Tr[l].e = "Reset"
          /\ ps' = [o \in Objs |-> Dead] /\ since' = [o \in Objs |-> 0]

TPInit == /\ Tr[l].e = "PInit"
          /\ LET e == Tr[l] IN
             /\ Judge(Len(e.ent) = 1, l, e, "instantiate makes exactly one entropy request")
             /\ Judge(RequestsWellFormed(e) /\ e.canary = 1, l, e, "requests ask for 32 bytes with the registered user data")
             /\ IF Len(e.ent) >= 1
                THEN LET d == Del(e.ent[1])
                         s == IF e.ctl = 1 THEN [V |-> <<>>, C |-> <<>>, counter |-> 1, limit |-> 32]
                                           ELSE Instantiate(d, e.custom)
                     IN  /\ Judge((e.res # 0) <=> (d.n = SeedLen), l, e, "status is non-zero iff a full 32-byte seed was delivered")
                         /\ ps' = [ps EXCEPT ![e.obj] = Mk(s)]
                ELSE ps' = [ps EXCEPT ![e.obj] = Dead]
             /\ since' = [since EXCEPT ![e.obj] = 0]

TPGen == /\ Tr[l].e = "PGen"
         /\ LET e == Tr[l]
                s == ps[e.obj]
                L == 32 * s.limit
            IN  IF ~s.live
                THEN /\ Judge(FALSE, l, e, "generate on an object whose instantiation was already rejected")
                     /\ UNCHANGED <<ps, since>>
                ELSE
                /\ Judge(RequestsWellFormed(e) /\ e.canary = 1 /\ e.ocanary = 1, l, e, "requests well-formed, canaries intact")
                /\ IF e.ctl = 1
                   THEN LET g == GenerateCtl(s.counter, s.limit, e.size) IN
                        /\ Judge(Len(e.ent) = Len(g.at) /\ PositionsOK(e.ent, g.at), l, e, g.at)
                        /\ Judge(e.repeats = 0, l, e, "no output block repeats its predecessor")
                        /\ ps' = [ps EXCEPT ![e.obj] = [s EXCEPT !.counter = g.counter]]
                        \* C16, from the observed request positions
                        /\ Judge(GapsOK(since[e.obj], g.at, e.size, L),
                                 l, e, "never more than the limit between two entropy requests")
                        /\ since' = [since EXCEPT ![e.obj] = IF Len(g.at) = 0 THEN since[e.obj] + e.size
                                                             ELSE e.size - g.at[Len(g.at)]]
                   ELSE LET g == Generate(s, e.size, Dels(e.ent)) IN
                        /\ Judge(e.out = g.out /\ g.used = Len(e.ent) /\ ~g.starved, l, e,
                                 [out |-> g.out, requests |-> g.used, missing_request |-> g.starved])
                        /\ Judge(PositionsOK(e.ent, g.at), l, e, g.at)
                        /\ Judge(NotConstant(e.out), l, e, "no output block repeats its predecessor")
                        /\ ps' = [ps EXCEPT ![e.obj] = Mk(g.st)]
                        /\ Judge(GapsOK(since[e.obj], g.at, e.size, L),
                                 l, e, "never more than the limit between two entropy requests")
                        /\ since' = [since EXCEPT ![e.obj] = IF Len(g.at) = 0 THEN since[e.obj] + e.size
                                                             ELSE e.size - g.at[Len(g.at)]]

TPFeed == /\ Tr[l].e = "PFeed"
          /\ LET e == Tr[l]
                 s == ps[e.obj]
             IN  /\ Judge(s.live /\ Len(e.ent) = 0 /\ e.canary = 1, l, e, "feed makes no entropy request")
                 /\ ps' = IF ~s.live THEN ps
                          ELSE [ps EXCEPT ![e.obj] = IF e.ctl = 1 THEN [s EXCEPT !.counter = s.counter + 1]
                                                     ELSE Mk(Feed(s, e.d))]
          /\ since' = since

TPReseed == /\ Tr[l].e = "PReseed"
            /\ LET e == Tr[l]
                   s == ps[e.obj]
               IN  /\ Judge(s.live /\ Len(e.ent) = 1 /\ RequestsWellFormed(e) /\ e.canary = 1, l, e, "reseed makes exactly one entropy request")
                   /\ IF Len(e.ent) >= 1 /\ s.live
                      THEN /\ Judge((e.res # 0) <=> (e.ent[1].n = SeedLen), l, e, "status is non-zero iff a full 32-byte seed was delivered")
                           /\ ps' = [ps EXCEPT ![e.obj] = IF e.ctl = 1 THEN [s EXCEPT !.counter = 1]
                                                          ELSE Mk(Reseed(s, Del(e.ent[1])))]
                      ELSE ps' = ps
            /\ since' = [since EXCEPT ![Tr[l].obj] = 0]

TPLimit == /\ Tr[l].e = "PLimit"
           /\ LET e == Tr[l]
                  s == ps[e.obj]
                  n == SetLimit(s, LimitOf(e))
              IN  /\ Judge(s.live /\ Len(e.ent) = 0 /\ e.canary = 1, l, e, "set-limit makes no entropy request")
                  /\ Judge(n.limit >= 1 /\ n.limit <= 32768, l, e, "limit between 32 bytes and 1 MiB")
                  /\ ps' = IF ~s.live THEN ps ELSE [ps EXCEPT ![e.obj] = [s EXCEPT !.limit = n.limit]]
           /\ since' = since

\* White-box probe (harness op pinject): the state object was overwritten with a chosen (V, C, counter, limit) - a state the
\* API can reach in principle but sampling cannot (carries across many bytes of V + H + C + counter) - and the following
\* events are judged from exactly that state.  PInjectSkip: the probe did not recognise the private layout and did nothing.
TPInject == /\ Tr[l].e \in {"PInject", "PInjectSkip"}
            /\ LET e == Tr[l] IN
               IF e.e = "PInjectSkip" THEN ps' = [ps EXCEPT ![e.obj] = Dead]
               ELSE /\ Judge(e.canary = 1 /\ Len(e.V) = 32 /\ Len(e.C) = 32 /\ e.counter >= 1 /\ e.limit \in 1..32768, l, e, "plan error: injected state")
                    /\ ps' = [ps EXCEPT ![e.obj] = Mk([V |-> e.V, C |-> e.C, counter |-> e.counter, limit |-> e.limit])]
            /\ since' = [since EXCEPT ![Tr[l].obj] = 0]

TPFree == /\ Tr[l].e = "PFree"
          /\ LET e == Tr[l] IN
             /\ Judge(e.nonzero = 0 /\ e.canary = 1, l, e, "free zeroes the whole state object")
             /\ ps' = [ps EXCEPT ![e.obj] = Dead]
          /\ since' = since

\* events of the other families (system-level traces): stuttering steps for this specification
Own == {"Reset", "PInit", "PGen", "PFeed", "PReseed", "PLimit", "PFree", "PInject", "PInjectSkip"}
TForeign == Tr[l].e \notin Own \cup {"Fault", "San", "Hang", "Garbled"} /\ UNCHANGED <<ps, since>>

Init == l = 1 /\ InitRegs /\ ps = [o \in Objs |-> Dead] /\ since = [o \in Objs |-> 0]
Next == /\ l <= Len(Tr)
        /\ l' = l + 1
        /\ (("evals" \in DOMAIN Tr[l]) => Judge(Tr[l].evals = 1, l, Tr[l], "the object argument of the call was evaluated more than once"))
        /\ (TReset \/ TPInit \/ TPGen \/ TPFeed \/ TPReseed \/ TPLimit \/ TPFree \/ TPInject \/ TForeign)
Spec == Init /\ [][Next]_vars
TraceAccepted == Accepted(Len(Tr))
=============================================================================
