------------------------------- MODULE TJDrbg -------------------------------
(***************************************************************************)
(* The PRNG: Hash_DRBG of NIST SP 800-90A rev 1, section 10.1.1, over      *)
(* TinyJAMBU-Hash with outlen = seedlen = 256 bits, in the documented      *)
(* variant that advances V after every 32-byte block.                      *)
(*                                                                         *)
(* State: V, C (32 bytes each), counter (reseed_counter), limit (blocks).  *)
(*                                                                         *)
(*  Hash_df(x)   = Hash(0x01 || 0x00000100 || x)   (one block: counter 1,  *)
(*                 256 bits to return)                                     *)
(*  Instantiate  V = Hash_df(entropy || custom), C = Hash_df(0x00 || V),   *)
(*               counter = 1, limit = 1024 bytes = 32 blocks               *)
(*  per block    if counter > limit then Reseed;                           *)
(*               out = Hash(V);  V = V + Hash(0x03 || V) + C + counter     *)
(*               (mod 2^256, big-endian);  counter = counter + 1           *)
(*  Feed(d)      V = Hash_df(0x01 || V || d), C = Hash_df(0x00 || V),      *)
(*               counter = counter + 1      (deviation: never reset here)  *)
(*  Reseed       V = Hash_df(0x01 || V || E), C = Hash_df(0x00 || V),      *)
(*               counter = 1, where E is the 32-byte entropy buffer        *)
(*  SetLimit(x)  limit = max(1, ceil(min(x, 2^20) / 32)) blocks            *)
(*                                                                         *)
(* The entropy buffer.  A request hands the source a 32-byte buffer: all   *)
(* zero at instantiation, a copy of V at a reseed ("pre-filled so that a   *)
(* short delivery still mixes").  A delivery d = [n, bytes, os] overwrites *)
(* its first n bytes.  The built-in system source (os = 1) either delivers *)
(* 32 bytes or fails with n = 0 and then leaves the buffer all zero (C18). *)
(* The call reports success iff n = 32.                                    *)
(***************************************************************************)
EXTENDS TJHash

SeedLen == 32
DfHeader == <<1, 0, 0, 1, 0>>

HashDfRaw(x) == Hash(DfHeader \o x)

EntropyBuf(prefill, d) ==
    IF d.os = 1 /\ d.n = 0 THEN Zeros(SeedLen)
    ELSE d.bytes \o SubSeq(prefill, d.n + 1, SeedLen)

Seeded(d) == IF d.n = SeedLen THEN 1 ELSE 0

DeriveC(V) == HashDfRaw(<<0>> \o V)

Instantiate(d, custom) ==
    LET V == HashDfRaw(EntropyBuf(Zeros(SeedLen), d) \o custom)
    IN  [V |-> V, C |-> DeriveC(V), counter |-> 1, limit |-> 32]

Reseed(st, d) ==
    LET V == HashDfRaw(<<1>> \o st.V \o EntropyBuf(st.V, d))
    IN  [V |-> V, C |-> DeriveC(V), counter |-> 1, limit |-> st.limit]

Feed(st, data) ==
    LET V == HashDfRaw(<<1>> \o st.V \o data)
    IN  [V |-> V, C |-> DeriveC(V), counter |-> st.counter + 1, limit |-> st.limit]

\* big-endian V + H + C + counter mod 2^256, as a carry chain from the last byte
AddMod(V, H, C, counter) ==
    LET r == FoldLeft(LAMBDA a, k :
                         LET i == SeedLen - k
                             s == a.carry + V[i] + H[i] + C[i]
                         IN  [carry |-> s \div 256, out |-> <<s % 256>> \o a.out],
                      [carry |-> counter, out |-> <<>>], Idx(SeedLen))
    IN  r.out

NextV(st) == AddMod(st.V, Hash(<<3>> \o st.V), st.C, st.counter)

SetLimit(st, x) ==
    LET c == IF x > 1048576 THEN 1048576 ELSE x
        b == (c + 31) \div 32
    IN  [st EXCEPT !.limit = IF b = 0 THEN 1 ELSE b]

(***************************************************************************)
(* Generate: block by block.  ent is the sequence of deliveries that were  *)
(* made inside the call; the machine consumes one at every automatic       *)
(* reseed.  Returns the new state, the output, the number of deliveries    *)
(* consumed, a flag telling whether a reseed was needed when none was left,*)
(* and the output offsets at which the requests fell.                      *)
(***************************************************************************)
Generate(st0, size, ent) ==
    FoldLeft(LAMBDA a, j :
                LET need == a.st.counter > a.st.limit
                    have == a.used < Len(ent)
                    s1   == IF need /\ have THEN Reseed(a.st, ent[a.used + 1]) ELSE a.st
                    len  == IF size - Len(a.out) < SeedLen THEN size - Len(a.out) ELSE SeedLen
                IN  [st      |-> [s1 EXCEPT !.V = NextV(s1), !.counter = s1.counter + 1],
                     out     |-> a.out \o SubSeq(Hash(s1.V), 1, len),
                     used    |-> IF need /\ have THEN a.used + 1 ELSE a.used,
                     starved |-> a.starved \/ (need /\ ~have),
                     at      |-> IF need /\ have THEN Append(a.at, Len(a.out)) ELSE a.at],
             [st |-> st0, out |-> <<>>, used |-> 0, starved |-> FALSE, at |-> <<>>],
             Idx((size + SeedLen - 1) \div SeedLen))

----------------------------------------------------------------------------
\* Control skeleton of Generate (no data): where the entropy requests fall and what the counter becomes.
GenerateCtl(counter, limit, size) ==
    FoldLeft(LAMBDA a, j :
                LET need == a.counter > limit
                    c1   == IF need THEN 1 ELSE a.counter
                IN  [counter |-> c1 + 1,
                     at      |-> IF need THEN Append(a.at, SeedLen * j) ELSE a.at],
             [counter |-> counter, at |-> <<>>],
             Idx((size + SeedLen - 1) \div SeedLen))
=============================================================================
