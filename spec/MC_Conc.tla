------------------------------- MODULE MC_Conc -------------------------------
(***************************************************************************)
(* Reentrancy (C19) as a model.                                            *)
(*                                                                         *)
(* Threads run sequences of library calls on disjoint caller-owned         *)
(* objects.  A call is a sequence of atomic steps; besides its own object  *)
(* it touches every cell of Globals - the set of writable static-storage   *)
(* cells of the library - in the worst possible way: it writes a value     *)
(* derived from its own arguments early and reads the cell back late, and  *)
(* what it read flows into its result.  Heap use is modelled the same way: *)
(* if the library imports an allocator, the allocator's bookkeeping is one *)
(* more shared cell.                                                       *)
(*                                                                         *)
(* Globals and Imports are NOT free parameters of the check: the harness   *)
(* computes them from the object files built from /repo's working tree     *)
(* (every symbol or section contribution in .data/.bss/.tbss/COMMON, every *)
(* undefined symbol) and writes them into the configuration.  With         *)
(* Globals = {} TLC shows that every interleaving yields the serial        *)
(* results and that results do not depend on earlier unrelated calls; with *)
(* any cell present TLC produces the interleaving that breaks it.          *)
(***************************************************************************)
EXTENDS Naturals, Sequences, FiniteSets, TLC

CONSTANTS Threads,     \* e.g. {1, 2, 3}
          NCalls,      \* calls per thread
          Globals,     \* writable static cells found in the built objects (model values or strings)
          Imports,     \* undefined symbols of the built objects
          HeapFns      \* allocator entry points

VARIABLES pc,       \* pc[t] in {"idle", "mid", "done"}
          k,        \* k[t] = index of the call thread t is executing (1..NCalls)
          g,        \* g[c] = content of global cell c
          seen,     \* seen[t] = what the running call of t read from the globals
          result    \* result[t][i] = result of call i of thread t, or <<>>
vars == <<pc, k, g, seen, result>>

Cells == Globals \cup (IF Imports \cap HeapFns = {} THEN {} ELSE {"heap"})

\* the argument identity of call i of thread t; its serial result is a function of it alone
Arg(t, i) == <<t, i>>
Clean == <<0, 0>>

Init == /\ pc = [t \in Threads |-> "idle"] /\ k = [t \in Threads |-> 1]
        /\ g = [c \in Cells |-> Clean] /\ seen = [t \in Threads |-> [c \in Cells |-> Clean]]
        /\ result = [t \in Threads |-> [i \in 1..NCalls |-> <<>>]]

\* first half of a call: work on the own object, leave traces in every global cell
Begin(t) == /\ pc[t] = "idle" /\ k[t] <= NCalls
            /\ g' = [c \in Cells |-> Arg(t, k[t])]
            /\ pc' = [pc EXCEPT ![t] = "mid"]
            /\ UNCHANGED <<k, seen, result>>

\* second half: read the globals back; the result depends on the arguments and on what was read
End(t) == /\ pc[t] = "mid"
          /\ seen' = [seen EXCEPT ![t] = g]
          /\ result' = [result EXCEPT ![t][k[t]] = <<Arg(t, k[t]), g>>]
          /\ k' = [k EXCEPT ![t] = k[t] + 1]
          /\ pc' = [pc EXCEPT ![t] = "idle"]
          /\ g' = g

Next == \E t \in Threads : Begin(t) \/ End(t)
Spec == Init /\ [][Next]_vars

\* what serial execution of that call alone yields
Serial(t, i) == <<Arg(t, i), [c \in Cells |-> Arg(t, i)]>>

\* C19: in every interleaving every completed call has exactly its serial result
SerialEquivalence ==
    \A t \in Threads : \A i \in 1..NCalls : result[t][i] # <<>> => result[t][i] = Serial(t, i)

\* no heap
NoHeap == Imports \cap HeapFns = {}
\* no writable static state
NoGlobals == Globals = {}
=============================================================================
