------------------------------- MODULE TV_Leak -------------------------------
(***************************************************************************)
(* Non-interference (C07) as a 2-safety property over observed executions. *)
(*                                                                         *)
(* An Obs event is one execution of one API call under valgrind lackey:    *)
(*   api   the call;  pub  its public shape (lengths, key-length class,    *)
(*   iteration count, and the accept/reject verdict where there is one);   *)
(*   sec   which secret values were used;                                  *)
(*   n, h  length and hash of the sequence of instruction addresses        *)
(*         executed inside the library together with the data addresses    *)
(*         those instructions touched.                                     *)
(* The specification: the observation is a function of (api, pub) alone -  *)
(* any two executions that agree on the public shape agree on the trace,   *)
(* whatever the secrets.  Seen keeps one representative per shape.         *)
(***************************************************************************)
EXTENDS TVBase

VARIABLES l, Seen
vars == <<l, Seen>>

Key(e) == <<e.api, e.pub>>

TObs == /\ Tr[l].e = "Obs"
        /\ LET e == Tr[l] IN
           IF Key(e) \in DOMAIN Seen
           THEN /\ Judge(Seen[Key(e)].n = e.n /\ Seen[Key(e)].h = e.h, l, e,
                         [same_public_shape_as |-> Seen[Key(e)].sec, n |-> Seen[Key(e)].n, h |-> Seen[Key(e)].h])
                /\ Seen' = Seen
           ELSE Seen' = Seen @@ (Key(e) :> [n |-> e.n, h |-> e.h, sec |-> e.sec])
TReset == Tr[l].e = "Reset" /\ Seen' = <<>>

Init == l = 1 /\ InitRegs /\ Seen = <<>>
Next == l <= Len(Tr) /\ l' = l + 1 /\ (TObs \/ TReset)
Spec == Init /\ [][Next]_vars
TraceAccepted == Accepted(Len(Tr))
=============================================================================
