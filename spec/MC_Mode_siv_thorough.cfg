SPECIFICATION Spec
CONSTANTS MaxAd = 9
          MaxM = 17
          MaxH = 70
          Ops = {"senc", "sdec"}
INVARIANT ModeRefines
INVARIANT CallCount
INVARIANT TypeOK
CHECK_DEADLOCK FALSE
