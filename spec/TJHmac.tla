------------------------------- MODULE TJHmac -------------------------------
(***************************************************************************)
(* HMAC (RFC 2104) instantiated with TinyJAMBU-Hash, block size B = 64:    *)
(*                                                                         *)
(*   K0   = key if |key| <= 64, else Hash(key); zero-padded to 64 bytes    *)
(*   HMAC = Hash((K0 xor opad) || Hash((K0 xor ipad) || text))             *)
(*   ipad = 0x36 repeated, opad = 0x5C repeated                            *)
(*                                                                         *)
(* Because K0 xor pad is exactly four 16-byte blocks, the hash states after*)
(* absorbing it (HmacStates) can be computed once per key; HmacWith is the *)
(* RFC's formula started from those states.  The streaming object is one   *)
(* hash machine holding the inner hash; the key is supplied again at       *)
(* finalize, as in the library's interface.                                *)
(***************************************************************************)
EXTENDS TJHash

HmacBlock == 64

K0(key) ==
    LET k == IF Len(key) > HmacBlock THEN Hash(key) ELSE key
    IN  k \o Zeros(HmacBlock - Len(k))

PadKey(key, pad) == LET k == K0(key) IN [i \in 1..HmacBlock |-> XorByte(k[i], pad)]

HmacStates(key) == [i |-> HUpdate(HInit, PadKey(key, 54)),      \* 0x36
                    o |-> HUpdate(HInit, PadKey(key, 92))]      \* 0x5C

HmacWith(ks, text) == HDigest(HUpdate(ks.o, HDigest(HUpdate(ks.i, text))))

Hmac(key, text) == HmacWith(HmacStates(key), text)

\* RFC 2104 verbatim (cross-check of the precomputed form)
HmacDoc(key, text) == Hash(PadKey(key, 92) \o Hash(PadKey(key, 54) \o text))

\* streaming: the object is the inner hash machine
HmInit(key) == HUpdate(HInit, PadKey(key, 54))
HmUpdate(h, data) == HUpdate(h, data)
HmFinalOut(h, key) == HDigest(HUpdate(HUpdate(HInit, PadKey(key, 92)), HDigest(h)))
=============================================================================
