SPECIFICATION FairSpec
CONSTANTS MaxTransient = 4  SimDepth = 100
PROPERTY Returns
CHECK_DEADLOCK FALSE
