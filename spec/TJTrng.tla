------------------------------- MODULE TJTrng -------------------------------
(***************************************************************************)
(* The built-in system entropy source (tinyjambu_trng_generate on Unix) as *)
(* a machine over the outcomes of the operating-system call it makes.      *)
(*                                                                         *)
(* Four build variants: "getrandom" (getrandom(buf, 32, 0)), "getentropy"  *)
(* (getentropy(buf, 32)), "syscall" (syscall(SYS_getrandom, buf, 32, 0))   *)
(* and "dev" (open /dev/urandom, read, close).                             *)
(*                                                                         *)
(* OS outcomes:                                                            *)
(*   OK      the call succeeds and fills the buffer with 32 OS bytes       *)
(*   EINTR, EAGAIN   transient: the call must be repeated                  *)
(*   PERM    any other errno: permanent                                    *)
(*   dev only:  OPENFAIL (open returns -1), SHORT (read returns 1..31      *)
(*   bytes: not an error, read again)                                      *)
(*   getrandom / syscall only: PARTIAL (the call returns 1..31: fewer      *)
(*   bytes than asked, not an error).  The property does not say what the  *)
(*   source makes of it - the code takes it for success, asking again for  *)
(*   the remainder would be as good - so the machine allows both: it may   *)
(*   return 1 at once or go on calling (pc = "opt"); what it may never do  *)
(*   is write outside the 32 bytes (the harness's guard bytes).            *)
(*                                                                         *)
(* Specification (C18): the source retries transient failures any number   *)
(* of times; it returns 1 with exactly the OS bytes iff an OK arrives      *)
(* before any permanent error; on a permanent error it returns 0, the      *)
(* 32-byte buffer is all zero, no further OS call is made, and every file  *)
(* descriptor it opened is closed again.                                   *)
(***************************************************************************)
EXTENDS Naturals, Sequences

Variants == {"getrandom", "getentropy", "syscall", "dev"}
Transient == {"EINTR", "EAGAIN"}

\* machine state: pc in {"open", "call", "close", "done"}, res, buf in {"undef", "os", "zero", "partial"}, fds
TrngInit(variant) == [pc |-> IF variant = "dev" THEN "open" ELSE "call", res |-> 0, buf |-> "undef", fds |-> 0,
                      variant |-> variant]

\* one OS call with outcome o
TrngStep(s, o) ==
    IF s.pc = "open"
    THEN IF o = "OPENFAIL" THEN [s EXCEPT !.pc = "done", !.res = 0, !.buf = "zero"]
         ELSE [s EXCEPT !.pc = "call", !.fds = 1]                        \* o = "FD"
    ELSE IF s.pc \in {"call", "opt"}
    THEN IF o = "OK" THEN [s EXCEPT !.pc = IF s.variant = "dev" THEN "close" ELSE "done", !.res = 1, !.buf = "os"]
         ELSE IF o \in Transient THEN s
         ELSE IF o = "SHORT" THEN [s EXCEPT !.buf = "partial"]
         ELSE IF o = "PARTIAL" THEN [s EXCEPT !.pc = "opt", !.res = 1, !.buf = "partial"]
         ELSE [s EXCEPT !.pc = IF s.variant = "dev" THEN "close" ELSE "done", !.res = 0, !.buf = "zero"]   \* PERM
    ELSE IF s.pc = "close"
    THEN [s EXCEPT !.pc = "done", !.fds = 0]
    ELSE s

\* which OS function the machine calls next
NextCall(s) ==
    IF s.pc = "open" THEN "open"
    ELSE IF s.pc = "close" THEN "close"
    ELSE IF s.pc \in {"call", "opt"} THEN (IF s.variant = "dev" THEN "read" ELSE s.variant)
    ELSE "none"

Outcomes(s) ==
    IF s.pc = "open" THEN {"FD", "OPENFAIL"}
    ELSE IF s.pc = "close" THEN {"CLOSED"}
    ELSE IF s.variant = "dev" THEN {"OK", "EINTR", "EAGAIN", "PERM", "SHORT"}
    ELSE IF s.variant = "getentropy" THEN {"OK", "EINTR", "EAGAIN", "PERM"}
    ELSE {"OK", "EINTR", "EAGAIN", "PERM", "PARTIAL"}
=============================================================================
