SPECIFICATION Spec
CONSTANTS MaxTransient = 8  SimDepth = 100
INVARIANT SuccessIff
INVARIANT FailureZeroes
INVARIANT NoFdLeak
INVARIANT OneVerdict
CHECK_DEADLOCK FALSE
