SPECIFICATION Spec
CONSTANTS Lens = {0, 1, 2, 3, 4, 5, 6, 7, 8, 9, 10, 11, 12, 13, 14, 15, 16, 17, 18, 19, 20}  MaxTotal = 48  SimDepth = 1000  B = 4  NBlocks = 4
VIEW view
INVARIANT ServesRfcStream
INVARIANT CounterRange
PROPERTY Terminal
CHECK_DEADLOCK FALSE
