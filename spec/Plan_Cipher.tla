----------------------------- MODULE Plan_Cipher -----------------------------
(***************************************************************************)
(* Shape spaces of the stateless cipher calls, i.e. the finite stand-ins   *)
(* for the properties' quantifiers "all (adlen, mlen) pairs incl. 0 and    *)
(* every residue mod 4; in place vs separate; all alignments; 3 key sizes; *)
(* all tamper positions".  TLC expands the set selected by the environment *)
(* variables FAMILY and TIER and serialises it to the file PLANOUT; the     *)
(* driver instantiates each shape with seeded concrete data.               *)
(*                                                                         *)
(* A shape: [v, adlen, mlen, alias, pl, oc, om, cls, kcls, tam]            *)
(*   v     key size                 alias 1 = output buffer is the input   *)
(*   pl    "e": buffers end flush against a guard page, "s": start         *)
(*   oc/om offset of the output / input buffer from that position (align.) *)
(*   cls   data class: r random, h all bytes >= 0x80, f 0xFF, c counting   *)
(*   kcls  key/nonce class: r random, z all-zero, f all-ones, b single bit, *)
(*         w some aligned 32-bit words zero                                  *)
(*   tam   tamper class for decryption shapes (0 = none)                   *)
(***************************************************************************)
EXTENDS Naturals, Sequences, FiniteSets, TLC, Json, IOUtils, SequencesExt

Family == IOEnv.FAMILY
Thorough == IOEnv.TIER = "thorough"

V == {128, 192, 256}

ADq == {0, 1, 2, 3, 4, 5, 8, 17}
ADt == (0..9) \cup {15, 16, 17, 31, 32, 33, 63, 64, 65}
MLq == (0..20) \cup {31, 32, 33, 63, 64, 65}
MLt == (0..40) \cup {63, 64, 65, 127, 128, 129, 255, 256, 257}
MLbig == {1021, 1024, 1027, 4093, 4096, 4099, 65537}

AD == IF Thorough THEN ADt ELSE ADq
ML == IF Thorough THEN MLt ELSE MLq

Cls(a, m, v) == <<"r", "h", "c", "f", "r", "h">>[((a + 3 * m + (v \div 64)) % 6) + 1]
KCls(a, m, v) == <<"r", "w", "b", "r", "z", "r", "f", "b", "w", "r">>[((5 * a + m + (v \div 64)) % 10) + 1]

Shape(v, a, m, al, pl, oc, om, tam) ==
    [v |-> v, adlen |-> a, mlen |-> m, alias |-> al, pl |-> pl, oc |-> oc, om |-> om,
     cls |-> Cls(a, m, v), kcls |-> KCls(a, m, v), tam |-> tam]

\* every (adlen, mlen) of the window, every key size, in place and separate
Lengths == { Shape(v, a, m, al, "e", 0, 0, 0) : v \in V, a \in AD, m \in ML, al \in {0, 1} }

\* long messages (thorough): lengths far above the 32 bytes the test-suite stops at
Long == IF Thorough THEN { Shape(v, a, m, al, "e", 0, 0, 0) : v \in V, a \in {0, 5}, m \in MLbig, al \in {0, 1} }
        ELSE { Shape(v, 3, m, 0, "e", 0, 0, 0) : v \in V, m \in {1021, 1024} }
             \cup { Shape(v, 1, 4099, 1, "e", 0, 0, 0) : v \in V } \cup { Shape(v, 4099, 2, 0, "s", 0, 0, 0) : v \in V }

\* alignment: every offset 0..7 of the output and of the input buffer, both placements
Align == { Shape(v, a, m, al, pl, oc, om, 0) :
             v \in V, a \in {0, 3, 6}, m \in IF Thorough THEN {0, 1, 5, 8, 14, 19, 33} ELSE {5, 14, 19},
             al \in {0, 1}, pl \in {"e", "s"}, oc \in 0..7,
             om \in IF Thorough THEN 0..7 ELSE {0, 1, 3} }

\* length edges: optimised bulk paths (8-, 16-, 32-, 64-byte loops) would start at one of these, for AD and message
Edges == {31, 32, 33, 63, 64, 65, 66, 127, 128, 129, 255, 257, 513, 1025}
EdgeShapes == { Shape(v, a, m, al, "e", 0, 0, 0) : v \in V, a \in Edges, m \in {0, 6}, al \in {0} }
         \cup { Shape(v, a, m, al, "e", 0, 0, 0) : v \in V, a \in {0, 2}, m \in Edges, al \in {0, 1} }
         \cup { Shape(v, e, e + 1, 1, "s", 1, 1, 0) : v \in V, e \in {65, 129, 257} }

\* messages above 2^18 bytes = 2^16 words (and 2^20 in the thorough tier): a 16-bit word or block counter wraps here
XLong == { Shape(v, IF v = 192 THEN 0 ELSE 3, m, IF v = 256 THEN 1 ELSE 0, "e", 0, 0, 0) :
             v \in V, m \in IF Thorough THEN {262149, 1048579} ELSE {262149} }

\* value classes at the ends of AD and message (driver: e ends in 00, t ends in a run of 00, 8 ends in 80 00.., z all zero,
\* l begins with 00): a partial last word whose bytes look like padding, for every residue of both lengths
ValueShapes == { [Shape(v, a, m, 0, "e", 0, 0, 0) EXCEPT !.cls = c] :
                   v \in V, a \in {0, 1, 2, 3, 6, 7}, m \in {1, 2, 3, 4, 6, 7, 11}, c \in {"e", "z", "8", "l", "t"} }

RoundTrip == Lengths \cup Long \cup Align \cup EdgeShapes \cup ValueShapes

(***************************************************************************)
(* Tamper classes of decryption shapes.  The position is chosen by the     *)
(* driver from the seed except where "every position" is requested         *)
(* (tam = 1x: every bit of the body / tag / ad / nonce / key).             *)
(*   1 body bit(s)   2 tag bit(s)   3 ad bit(s)   4 nonce   5 key          *)
(*   6 truncate by one byte   7 extend by one byte                         *)
(*   8 shift the AD/message boundary (last AD byte becomes first body byte)*)
(*   9 clen in 0..7                                                        *)
(***************************************************************************)
TamLens == IF Thorough THEN { <<a, m>> : a \in {0, 1, 4, 7, 16}, m \in {0, 1, 2, 3, 4, 5, 8, 13, 24, 31, 64} }
                                \cup { <<0, 300>>, <<70, 1030>>, <<300, 5>>, <<3, 4100>> }
           ELSE { <<a, m>> : a \in {0, 1, 7}, m \in {0, 1, 3, 4, 6, 13, 24} } \cup { <<0, 300>>, <<70, 1030>> }
Tamper == { Shape(v, am[1], am[2], al, "e", 0, 0, t) :
              v \in V, am \in TamLens, al \in {0, 1}, t \in 1..9 }

\* C09 families: under one (key, nonce): base message, single-bit neighbours, repeats
SivFamilies == { [v |-> v, adlen |-> a, mlen |-> m, nbits |-> IF Thorough THEN 24 ELSE 8,
                  cls |-> Cls(a, m, v), kcls |-> KCls(a, m, v)] :
                 v \in V, a \in {0, 3, 8}, m \in IF Thorough THEN {0, 1, 4, 8, 9, 12, 16, 23, 40} ELSE {1, 8, 12, 23} }
         \cup { [v |-> v, adlen |-> am[1], mlen |-> am[2], nbits |-> IF Thorough THEN 12 ELSE 5,
                  cls |-> Cls(am[1], am[2], v), kcls |-> "r"] :
                 v \in V, am \in {<<0, 33>>, <<40, 9>>, <<5, 64>>, <<70, 65>>, <<0, 130>>, <<130, 16>>}
                            \cup IF Thorough THEN {<<257, 257>>, <<0, 1025>>, <<1025, 8>>} ELSE {} }

\* ... and families whose AD / message end in bytes that look like padding (see ValueShapes)
SivValueFamilies == { [v |-> v, adlen |-> a, mlen |-> m, nbits |-> 3, cls |-> c, kcls |-> "r"] :
                        v \in V, a \in {0, 2, 3, 7}, m \in {1, 2, 3, 6, 7}, c \in {"e", "z", "t"} }

\* C04 long packets: lengths x pre-fill x tamper x alias
BigLens == IF Thorough THEN (0..40) \cup {63, 64, 65, 255, 256, 257, 1023, 1024, 1025, 4095, 4096, 4097, 65535, 65536, 65537, 1048576}
           ELSE {0, 1, 2, 3, 4, 5, 7, 8, 15, 16, 17, 31, 32, 33, 34, 35, 36, 40, 63, 64, 65, 255, 256, 257, 1023, 1025, 4097, 65537}
Big == { [v |-> v, adlen |-> a, mlen |-> m, alias |-> al, pf |-> pf, tam |-> t] :
           v \in V, a \in {0, 5}, m \in BigLens, al \in {0, 1}, pf \in {0, 255, 165}, t \in 0..5 }

Plan == CASE Family = "roundtrip" -> RoundTrip
          [] Family = "tamper"    -> Tamper
          [] Family = "sivfam"    -> SivFamilies \cup SivValueFamilies
          [] Family = "big"       -> Big
          [] Family = "xlong"     -> XLong

ASSUME JsonSerialize(IOEnv.PLANOUT, SetToSeq(Plan))

VARIABLE x
Init == x = 0
Next == UNCHANGED x
Spec == Init /\ [][Next]_x
=============================================================================
