------------------------------ MODULE Plan_Hash ------------------------------
(***************************************************************************)
(* Plans for the hash family, expanded by TLC and serialised to PLANOUT.   *)
(*                                                                         *)
(*  compositions  every way of splitting a message of length n into a      *)
(*                sequence of positive chunk sizes (2^(n-1) of them), for   *)
(*                every n up to NComp - C11's "all compositions"           *)
(*  edges         every (posn, len) transition of the update machine:      *)
(*                posn in 0..15 bytes already buffered, len in 0..48       *)
(*  hmacgrid      key length x message length classes of C12               *)
(*  hkdfgrid      (posn, len) transitions of the HKDF output machine and   *)
(*                the families around the 8160-byte limit of C13           *)
(*  pbkdf2grid    parameter grid of C14                                    *)
(***************************************************************************)
EXTENDS Naturals, Sequences, FiniteSets, TLC, Json, IOUtils, SequencesExt

Family == IOEnv.FAMILY
Thorough == IOEnv.TIER = "thorough"

\* all compositions of n: sequences of positive integers summing to n
RECURSIVE Comp(_)
Comp(n) == IF n = 0 THEN {<<>>}
           ELSE UNION { { <<k>> \o c : c \in Comp(n - k) } : k \in 1..n }

NComp == IF Thorough THEN 14 ELSE 10
Compositions == UNION { { [n |-> n, chunks |-> c] : c \in Comp(n) } : n \in 0..NComp }
\* compositions of longer messages that straddle block boundaries: parts from a small alphabet
RECURSIVE CompA(_, _)
CompA(n, A) == IF n = 0 THEN {<<>>}
               ELSE UNION { { <<k>> \o c : c \in CompA(n - k, A) } : k \in {a \in A : a <= n} }
LongCompositions == { [n |-> 40, chunks |-> c] : c \in CompA(40, {3, 13, 16, 17, 24}) }
               \cup { [n |-> 33, chunks |-> c] : c \in CompA(33, {1, 15, 16, 17}) }

Edges == { [posn |-> p, len |-> n] : p \in 0..15, n \in 0..48 }
         \cup { [posn |-> p, len |-> n] : p \in {0, 1, 8, 15}, n \in {63, 64, 65, 127, 128, 129, 255, 257, 1000} }

KeyLens == IF Thorough THEN {0, 1, 15, 16, 31, 32, 33, 63, 64, 65, 66, 100, 127, 128, 129, 200, 257}
           ELSE {0, 1, 31, 32, 33, 63, 64, 65, 66, 100, 128, 200, 257}
MsgLens == IF Thorough THEN {0, 1, 15, 16, 17, 31, 32, 33, 63, 64, 65, 100, 255, 1000}
           ELSE {0, 1, 15, 16, 17, 63, 64, 65, 100, 300}
HmacGrid == { [klen |-> k, mlen |-> m] : k \in KeyLens, m \in MsgLens }

HkdfEdges == { [posn |-> p, len |-> n] : p \in {0, 1, 5, 16, 31, 32}, n \in {0, 1, 5, 26, 27, 31, 32, 33, 64, 65, 100} }
HkdfGrid == IF Thorough
            THEN { [klen |-> k, slen |-> s, ilen |-> i, len |-> n] :
                     k \in {0, 1, 32, 80, 200}, s \in {0, 13, 31, 32, 33, 48, 63, 64, 65, 200}, i \in {0, 1, 10, 80, 200},
                     n \in {0, 1, 31, 32, 33, 42, 64, 82, 100, 255} }
            ELSE { [klen |-> k, slen |-> s, ilen |-> i, len |-> n] :
                     k \in {0, 32, 200}, s \in {0, 13, 32, 33, 48, 64, 65, 200}, i \in {0, 10, 200}, n \in {1, 33, 82} }

PbGrid == { [plen |-> p, slen |-> s, count |-> c, len |-> n] :
              p \in IF Thorough THEN {0, 1, 32, 63, 64, 65, 100, 200} ELSE {0, 8, 63, 64, 65, 100, 200},
              s \in IF Thorough THEN {0, 1, 8, 13, 28, 59, 60, 61, 64, 65, 100, 200} ELSE {0, 8, 13, 60, 61, 100, 200},
              c \in IF Thorough THEN {0, 1, 2, 3, 4, 5, 17} ELSE {0, 1, 2, 3, 5},
              n \in IF Thorough THEN {0, 1, 31, 32, 33, 64, 65, 100} ELSE {1, 32, 33, 70} }

Plan == CASE Family = "compositions" -> Compositions \cup LongCompositions
          [] Family = "edges"        -> Edges
          [] Family = "hmacgrid"     -> HmacGrid
          [] Family = "hkdfedges"    -> HkdfEdges
          [] Family = "hkdfgrid"     -> HkdfGrid
          [] Family = "pbgrid"       -> PbGrid

ASSUME JsonSerialize(IOEnv.PLANOUT, SetToSeq(Plan))

VARIABLE x
Init == x = 0
Next == UNCHANGED x
Spec == Init /\ [][Next]_x
=============================================================================
