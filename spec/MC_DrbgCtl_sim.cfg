SPECIFICATION Spec
CONSTANTS Sizes = {0, 1, 31, 32, 33, 64, 65, 100, 300}  Limits = {0, 1, 31, 32, 33, 64, 96, 1024}  FeedLens = {0, 1, 32, 100}
          MaxCounter = 100000  MaxOps = 9  SimDepth = 9
INVARIANT SinceVsCounter
INVARIANT PlanOut
CHECK_DEADLOCK FALSE
