--------------------------------- MODULE Poly ---------------------------------
(***************************************************************************)
(* Boolean polynomials over GF(2) in algebraic normal form: a polynomial   *)
(* is a set of monomials, a monomial a set of variable numbers; {} is 0    *)
(* and {{}} is 1.  XOR is symmetric difference; AND is the product with    *)
(* coefficients reduced modulo 2 (a monomial produced an even number of    *)
(* times cancels).  Two circuits compute the same function of all their    *)
(* input bits iff their polynomials are equal, which is what makes one     *)
(* symbolic run a statement about every input.                             *)
(***************************************************************************)
EXTENDS Naturals, Sequences, FiniteSets, FiniteSetsExt

Zero == {}
One == {{}}
Var(v) == {{v}}

XorP(p, q) == (p \ q) \cup (q \ p)
NotP(p) == XorP(p, One)
Toggle(S, m) == IF m \in S THEN S \ {m} ELSE S \cup {m}
AndP(p, q) ==
    IF p = Zero \/ q = Zero THEN Zero
    ELSE IF p = One THEN q ELSE IF q = One THEN p
    ELSE FoldSet(LAMBDA m1, acc : FoldSet(LAMBDA m2, a2 : Toggle(a2, m1 \cup m2), acc, q), {}, p)

\* words: sequences of polynomials, least significant bit first
XorW(a, b) == [i \in 1..Len(a) |-> XorP(a[i], b[i])]
AndW(a, b) == [i \in 1..Len(a) |-> AndP(a[i], b[i])]
OrW(a, b)  == [i \in 1..Len(a) |-> XorP(XorP(a[i], b[i]), AndP(a[i], b[i]))]
ShlW(a, n) == [i \in 1..Len(a) |-> IF i - n >= 1 THEN a[i - n] ELSE Zero]
ShrW(a, n) == [i \in 1..Len(a) |-> IF i + n <= Len(a) THEN a[i + n] ELSE Zero]
ZeroW(n) == [i \in 1..n |-> Zero]
\* a concrete word given as two 16-bit limbs
ConstW(limbs) == [i \in 1..32 |-> IF ((limbs[((i - 1) \div 16) + 1] \div (2 ^ ((i - 1) % 16))) % 2) = 1 THEN One ELSE Zero]
=============================================================================
