SPECIFICATION Spec
POSTCONDITION AllRan
CHECK_DEADLOCK FALSE
