-------------------------------- MODULE Mach32 --------------------------------
(***************************************************************************)
(* An executable model of the register machines the 32-bit assembly back   *)
(* ends are written for: ARM (ARMv6 ARM-mode/Thumb-2 subset, ARMv6-M,      *)
(* ARMv7-M), RISC-V (RV32E, RV32I, RV64I) and Xtensa (CALL0 and windowed   *)
(* ABI).  tools/isa.py translates a preprocessed .S file, instruction by   *)
(* instruction, into the sequence Prog of records; TLC then RUNS the       *)
(* program from every test in Tests and checks C05's clauses:              *)
(*                                                                         *)
(*  at the return instruction                                              *)
(*   - the four state words equal TJPerm!Perm(S0, K0, 128 * rounds)        *)
(*   - the key words are unchanged                                         *)
(*   - the ABI's callee-saved registers and the stack pointer hold their   *)
(*     entry values and control returns to the entry return address        *)
(*  in every step                                                          *)
(*   - loads and stores stay inside the structure and the own stack frame, *)
(*     stores hit only the four state words or the stack frame             *)
(*   - no branch condition and no address depends on state or key bits     *)
(*     (taint ghost: data loaded from the structure is tainted, taint      *)
(*     flows through ALU results, flags, and spills to the stack)          *)
(*   - the program terminates within MaxSteps                              *)
(*                                                                         *)
(* Registers are XL limbs of 16 bits (2, or 4 for RV64); memory is a       *)
(* function from word addresses to 32-bit words.  A failed clause prints   *)
(* one line {"isafail": reason, "test": i, "pc": pc} and bumps TLC         *)
(* register 1; register 2 counts the tests that reached their return.      *)
(***************************************************************************)
EXTENDS Limbs, TLC, Json, IOUtils, SequencesExt, FiniteSets

Prog  == ndJsonDeserialize(IOEnv.PROG)      \* instruction records
Tests == ndJsonDeserialize(IOEnv.TESTS)     \* [s (16 bytes), k (key bytes), rounds]
Meta  == ndJsonDeserialize(IOEnv.META)[1]   \* [xl, nregs, sp, ra, arg0, arg1, saved, abi, retsentinel]

LB == 16
XL == Meta.xl                                \* limbs per register
BASE == 4096                                 \* address of the state structure
SP0 == 32768                                 \* stack pointer at entry
STACKLO == SP0 - 512
RETADDR == 20480                             \* the caller's return address (a code address: not a data address)
MaxSteps == 40000

VARIABLES pc, R, M, Z, sar, tR, tM, tZ, halted, tst, steps
vars == <<pc, R, M, Z, sar, tR, tM, tZ, halted, tst, steps>>

---------------------------------------------------------------------------
\* the specification side
INSTANCE TJPerm

Word(bytes, i) == <<bytes[4 * i + 1] + 256 * bytes[4 * i + 2], bytes[4 * i + 3] + 256 * bytes[4 * i + 4]>>
NKW(T) == Len(T.k) \div 4
Expected(T) == LET out == BitsBytes(Perm(BytesBits(T.s), BytesBits(T.k), 128 * T.rounds))
               IN  [i \in 0..3 |-> Word(out, i)]

StructAddrs(T) == {BASE + 4 * i : i \in 0..(3 + NKW(T))}
StateAddrs == {BASE + 4 * i : i \in 0..3}
StackAddrs == {a \in STACKLO..(SP0 - 1) : a % 4 = 0}

\* distinct recognisable entry values for every register
Sentinel(r) == FromNat(24576 + 16 * r, XL, LB)

InitMem(T) ==
    [a \in StructAddrs(T) \cup StackAddrs |->
        IF a \in StackAddrs THEN <<57005, 48879>>
        ELSE LET i == (a - BASE) \div 4 IN
             IF i < 4 THEN Word(T.s, i) ELSE NotV(Word(T.k, i - 4), LB)]     \* key words are stored pre-inverted

InitRegs(T) ==
    [r \in 0..(Meta.nregs - 1) |->
        IF r = Meta.sp THEN FromNat(SP0, XL, LB)
        ELSE IF r = Meta.ra THEN FromNat(RETADDR, XL, LB)
        ELSE IF r = Meta.arg0 THEN FromNat(BASE, XL, LB)
        ELSE IF r = Meta.arg1 THEN FromNat(T.rounds, XL, LB)
        ELSE IF r = Meta.zero THEN ZeroV(XL)
        ELSE Sentinel(r)]

(***************************************************************************)
(* ARMv6-M has only the 16-bit Thumb encodings: a conditional branch reaches *)
(* -256..+254 bytes from PC+4, an unconditional one -2048..+2046; loads and  *)
(* stores take r0-r7 with a word offset of 0..124 (0..1020 from sp); the     *)
(* data-processing instructions are two-operand, low registers, no shifted   *)
(* operand; add/sub immediates are 0..255 (same register) or 0..7.  Every    *)
(* instruction of the program must have such an encoding (Meta.enc, set by   *)
(* the translator for the armv6m target; all instructions are 2 bytes).      *)
(***************************************************************************)
Abs(x) == IF x < 0 THEN -x ELSE x
T1OK(i) ==
    LET J == Prog[i]
        off == 2 * (J.t - (i + 2))
    IN  CASE J.op = "br" -> IF J.cond = "always" THEN off \in -2048..2046 ELSE off \in -256..254
          [] J.op \in {"ld", "st"} -> /\ J.d < 8 /\ J.imm % 4 = 0
                                       /\ IF J.a = Meta.sp THEN J.imm \in 0..1020 ELSE J.a < 8 /\ J.imm \in 0..124
          [] J.op = "alu" /\ J.f # "mov" -> J.d < 8 /\ J.b < 8 /\ J.a = J.d /\ J.sk = 0
          [] J.op = "shi" -> J.d < 8 /\ J.a < 8 /\ J.imm \in 0..32
          [] J.op = "addi" -> \/ J.d = J.a /\ J.d < 8 /\ Abs(J.imm) <= 255
                              \/ J.d < 8 /\ J.a < 8 /\ Abs(J.imm) <= 7
                              \/ J.d = Meta.sp /\ J.a = Meta.sp /\ Abs(J.imm) <= 508 /\ J.imm % 4 = 0
          [] OTHER -> TRUE
EncodingOK ==
    IF "enc" \in DOMAIN Meta /\ Meta.enc = "thumb1"
    THEN \A i \in 1..Len(Prog) :
            IF T1OK(i) THEN TRUE
            ELSE PrintT(ToJson([isafail |-> "the instruction has no ARMv6-M (16-bit Thumb) encoding: branch out of reach, high register, or immediate out of range",
                                test |-> 1, pc |-> i]))
    ELSE TRUE

Init == /\ tst \in 1..Len(Tests)
        /\ (tst = 1 => EncodingOK)
        /\ pc = 1 /\ R = InitRegs(Tests[tst]) /\ M = InitMem(Tests[tst])
        /\ Z = FALSE /\ sar = -1 /\ tR = {} /\ tM = {} /\ tZ = TRUE /\ halted = FALSE /\ steps = 0
        /\ TLCSet(1, 0) /\ TLCSet(2, 0)

---------------------------------------------------------------------------
Fail(reason) == /\ PrintT(ToJson([isafail |-> reason, test |-> tst, pc |-> pc]))
                /\ TLCSet(1, TLCGet(1) + 1)
Check(ok, reason) == IF ok THEN TRUE ELSE Fail(reason)

I == Prog[pc]
Reg(r) == IF r = Meta.zero THEN ZeroV(XL) ELSE R[r]
SetReg(r, v) == IF r = Meta.zero THEN R ELSE [R EXCEPT ![r] = v]
Trunc(v) == v                                  \* values always have XL limbs

Shifted(v, sk, sa) == IF sk = 1 THEN ShlV(v, sa, LB) ELSE IF sk = 2 THEN ShrV(v, sa, LB) ELSE v

Addr(base, imm) == ToNat(AddImmV(Reg(base), imm, LB), LB)
AddrOK(base, imm) == UpperZero(AddImmV(Reg(base), imm, LB)) /\ AddImmV(Reg(base), imm, LB)[2] < 16

Stop == /\ halted' = TRUE /\ UNCHANGED <<pc, R, M, Z, sar, tR, tM, tZ>>
Goto(t) == pc' = t
NextPc == pc' = pc + 1
Taint(d, on) == tR' = IF on THEN tR \cup {d} ELSE tR \ {d}

\* --- load: w = 1 word, w = 2 doubleword (RV64 ld); sx = sign-extend the 32-bit word into a 64-bit register
DoLd ==
    LET a == Addr(I.a, I.imm) IN
    IF ~AddrOK(I.a, I.imm) \/ a % 4 # 0 \/ a \notin DOMAIN M \/ (I.w = 2 /\ (a + 4) \notin DOMAIN M) \/ I.a \in tR
    THEN Fail("load from an address outside the structure and the stack frame, misaligned, or secret-dependent") /\ Stop
         /\ UNCHANGED <<tst>>
    ELSE IF I.w = 2 /\ a \notin StackAddrs
    THEN Fail("doubleword load from the state structure: its members are 32-bit words, so it is only 4-byte aligned (the stack is 16-byte aligned)") /\ Stop
         /\ UNCHANGED <<tst>>
    ELSE LET lo == M[a]
             v  == IF I.w = 2 THEN lo \o M[a + 4]
                   ELSE IF XL = 4 THEN (IF I.sx = 1 THEN SextW(lo \o <<0, 0>>) ELSE lo \o <<0, 0>>)
                   ELSE lo
         IN  /\ R' = SetReg(I.d, v)
             /\ Taint(I.d, a \in StructAddrs(Tests[tst]) \/ a \in tM \/ (I.w = 2 /\ (a + 4) \in tM))
             /\ NextPc /\ UNCHANGED <<M, Z, sar, tM, tZ, halted, tst>>

DoSt ==
    LET a == Addr(I.a, I.imm) IN
    IF ~AddrOK(I.a, I.imm) \/ a % 4 # 0 \/ I.a \in tR
       \/ ~(a \in StateAddrs \/ (a \in StackAddrs /\ a >= ToNat(Reg(Meta.sp), LB) /\ a < SP0))
       \/ (I.w = 2 /\ ~((a + 4) \in StackAddrs))
    THEN Fail("store outside the four state words and the own stack frame, misaligned, or to a secret-dependent address") /\ Stop
         /\ UNCHANGED <<tst>>
    ELSE /\ M' = IF I.w = 2 THEN [M EXCEPT ![a] = SubSeq(Reg(I.d), 1, 2), ![a + 4] = SubSeq(Reg(I.d), 3, 4)]
                 ELSE [M EXCEPT ![a] = SubSeq(Reg(I.d), 1, 2)]
         /\ tM' = IF I.d \in tR THEN tM \cup (IF I.w = 2 THEN {a, a + 4} ELSE {a}) ELSE tM \ (IF I.w = 2 THEN {a, a + 4} ELSE {a})
         /\ NextPc /\ UNCHANGED <<R, Z, sar, tR, tZ, halted, tst>>

\* --- ALU: d := a f shift(b);  f = mov ignores a
DoAlu ==
    LET b == Shifted(Reg(I.b), I.sk, I.sa)
        b32 == IF XL = 2 THEN b ELSE b
        v == CASE I.f = "xor" -> XorV(Reg(I.a), b32)
               [] I.f = "and" -> AndV(Reg(I.a), b32)
               [] I.f = "or"  -> OrV(Reg(I.a), b32)
               [] I.f = "mov" -> b32
    IN  /\ R' = SetReg(I.d, v)
        /\ Taint(I.d, (I.b \in tR) \/ (I.f # "mov" /\ I.a \in tR))
        /\ Z' = IF I.setf = 1 THEN IsZeroV(v) ELSE Z
        /\ tZ' = IF I.setf = 1 THEN ((I.b \in tR) \/ (I.f # "mov" /\ I.a \in tR)) ELSE tZ
        /\ NextPc /\ UNCHANGED <<M, sar, tM, halted, tst>>

\* --- shift by immediate; w32 = 1: RV64 "w" form (low 32 bits, result sign-extended)
DoShi ==
    LET src == IF I.w32 = 1 THEN SubSeq(Reg(I.a), 1, 2) ELSE Reg(I.a)
        s   == IF I.f = "shl" THEN ShlV(src, I.imm, LB) ELSE ShrV(src, I.imm, LB)
        v   == IF I.w32 = 1 THEN SextW(s \o <<0, 0>>) ELSE s
    IN  /\ R' = SetReg(I.d, v)
        /\ Taint(I.d, I.a \in tR)
        /\ Z' = IF I.setf = 1 THEN IsZeroV(v) ELSE Z
        /\ tZ' = IF I.setf = 1 THEN I.a \in tR ELSE tZ
        /\ NextPc /\ UNCHANGED <<M, sar, tM, halted, tst>>

DoAddi ==
    LET v == AddImmV(Reg(I.a), I.imm, LB) IN
    /\ R' = SetReg(I.d, v)
    /\ Taint(I.d, I.a \in tR)
    /\ Z' = IF I.setf = 1 THEN IsZeroV(v) ELSE Z
    /\ tZ' = IF I.setf = 1 THEN I.a \in tR ELSE tZ
    /\ NextPc /\ UNCHANGED <<M, sar, tM, halted, tst>>

\* --- Xtensa funnel shift: d := low 32 bits of ((a:b) >> sar)
DoSsai == /\ sar' = I.imm /\ NextPc /\ UNCHANGED <<R, M, Z, tR, tM, tZ, halted, tst>>
DoSrc ==
    IF sar < 0 THEN Fail("funnel shift before any ssai: the result depends on what the caller left in SAR") /\ Stop /\ UNCHANGED <<tst>> ELSE
    LET v == SubSeq(ShrV(Reg(I.b) \o Reg(I.a), sar, LB), 1, 2) IN
    /\ R' = SetReg(I.d, v)
    /\ Taint(I.d, I.a \in tR \/ I.b \in tR)
    /\ NextPc /\ UNCHANGED <<M, Z, sar, tM, tZ, halted, tst>>

\* --- branches
DoBr ==
    LET secret == CASE I.cond \in {"z", "nz"} -> tZ
                    [] I.cond \in {"regz", "regnz", "eqi", "nei"} -> I.a \in tR
                    [] OTHER -> FALSE
        taken  == CASE I.cond = "always" -> TRUE
                    [] I.cond = "z" -> Z
                    [] I.cond = "nz" -> ~Z
                    [] I.cond = "regz" -> IsZeroV(Reg(I.a))
                    [] I.cond = "regnz" -> ~IsZeroV(Reg(I.a))
                    [] I.cond = "eqi" -> Reg(I.a) = FromNat(I.imm, XL, LB)
                    [] I.cond = "nei" -> Reg(I.a) # FromNat(I.imm, XL, LB)
    IN  IF secret THEN Fail("branch condition depends on state or key bits") /\ Stop /\ UNCHANGED <<tst>>
        ELSE /\ Goto(IF taken THEN I.t ELSE pc + 1)
             /\ UNCHANGED <<R, M, Z, sar, tR, tM, tZ, halted, tst>>

\* --- ARM push / pop of a register list (ascending register numbers at ascending addresses)
DoPush ==
    LET n   == Len(I.list)
        sp1 == ToNat(Reg(Meta.sp), LB) - 4 * n
    IN  IF sp1 < STACKLO THEN Fail("stack overflow") /\ Stop /\ UNCHANGED <<tst>>
        ELSE /\ M' = [a \in DOMAIN M |-> IF a >= sp1 /\ a < sp1 + 4 * n /\ a % 4 = 0 THEN R[I.list[((a - sp1) \div 4) + 1]] ELSE M[a]]
             /\ tM' = (tM \ {sp1 + 4 * (j - 1) : j \in 1..n}) \cup {sp1 + 4 * (j - 1) : j \in {j \in 1..n : I.list[j] \in tR}}
             /\ R' = [R EXCEPT ![Meta.sp] = FromNat(sp1, XL, LB)]
             /\ NextPc /\ UNCHANGED <<Z, sar, tR, tZ, halted, tst>>

\* the clauses checked when control returns to the caller
FinalOK(retval) ==
    LET T == Tests[tst]
        E == Expected(T)
    IN  /\ Check(\A i \in 0..3 : M[BASE + 4 * i] = E[i], "state words differ from the specification's permutation")
        /\ Check(\A i \in 4..(3 + NKW(T)) : M[BASE + 4 * i] = NotV(Word(T.k, i - 4), LB), "key words were modified")
        /\ Check(retval = FromNat(RETADDR, XL, LB), "does not return to the caller's return address")
        /\ TLCSet(2, TLCGet(2) + 1)

SavedOK(Rfinal) ==
    /\ Check(Rfinal[Meta.sp] = FromNat(SP0, XL, LB), "stack pointer not restored")
    /\ Check(\A j \in 1..Len(Meta.saved) : Rfinal[Meta.saved[j]] = Sentinel(Meta.saved[j]), "callee-saved register not restored")

DoPop ==
    LET n   == Len(I.list)
        sp0 == ToNat(Reg(Meta.sp), LB)
        val(j) == M[sp0 + 4 * (j - 1)]
        isret == \E j \in 1..n : I.list[j] = Meta.pcreg
        R1 == [r \in DOMAIN R |-> IF r = Meta.sp THEN FromNat(sp0 + 4 * n, XL, LB)
                                  ELSE IF \E j \in 1..n : I.list[j] = r THEN val(CHOOSE j \in 1..n : I.list[j] = r) ELSE R[r]]
    IN  IF sp0 + 4 * n > SP0 THEN Fail("stack underflow") /\ Stop /\ UNCHANGED <<tst>>
        ELSE IF isret
        THEN /\ FinalOK(val(CHOOSE j \in 1..n : I.list[j] = Meta.pcreg)) /\ SavedOK(R1)
             /\ R' = R1 /\ halted' = TRUE /\ UNCHANGED <<pc, M, Z, sar, tR, tM, tZ, tst>>
        ELSE /\ R' = R1
             /\ tR' = (tR \ {I.list[j] : j \in 1..n}) \cup {I.list[j] : j \in {j \in 1..n : (sp0 + 4 * (j - 1)) \in tM}}
             /\ NextPc /\ UNCHANGED <<M, Z, sar, tM, tZ, halted, tst>>

\* return through a register (bx lr, ret, ret.n); windowed retw.n returns through the rotated window
DoRet ==
    /\ FinalOK(IF I.a = Meta.nregs THEN FromNat(RETADDR, XL, LB) ELSE Reg(I.a))
    /\ IF Meta.abi = "windowed"
       THEN Check(ToNat(Reg(Meta.sp), LB) = SP0 - I.imm, "stack pointer inconsistent with the entry instruction")
       ELSE SavedOK(R)
    /\ Stop /\ UNCHANGED <<tst>>

\* windowed-ABI prologue: allocate the frame (the register window rotation gives the callee fresh registers)
DoEntry == /\ R' = [R EXCEPT ![Meta.sp] = AddImmV(R[Meta.sp], 0 - I.imm, LB)]
           /\ NextPc /\ UNCHANGED <<M, Z, sar, tR, tM, tZ, halted, tst>>

Step ==
    /\ ~halted
    /\ steps' = steps + 1
    /\ IF steps >= MaxSteps \/ pc < 1 \/ pc > Len(Prog)
       THEN Fail("does not terminate / runs off the end of the function") /\ Stop /\ UNCHANGED <<tst>>
       ELSE CASE I.op = "ld"    -> DoLd
              [] I.op = "st"    -> DoSt
              [] I.op = "alu"   -> DoAlu
              [] I.op = "shi"   -> DoShi
              [] I.op = "addi"  -> DoAddi
              [] I.op = "ssai"  -> DoSsai
              [] I.op = "src"   -> DoSrc
              [] I.op = "br"    -> DoBr
              [] I.op = "push"  -> DoPush
              [] I.op = "pop"   -> DoPop
              [] I.op = "ret"   -> DoRet
              [] I.op = "entry" -> DoEntry
              [] OTHER          -> Fail("instruction outside the modelled subset") /\ Stop /\ UNCHANGED <<tst>>

Next == Step
Spec == Init /\ [][Next]_vars

AllRan == TLCGet(1) = 0 /\ TLCGet(2) = Len(Tests)
=============================================================================
