--------------------------------- MODULE Sym32 ---------------------------------
(***************************************************************************)
(* Symbolic execution of the 32-bit assembly back ends: the same programs  *)
(* (Prog, Meta as for Mach32) are run ONCE with the state bits and the key *)
(* bits as variables of GF(2) polynomials (module Poly), so that the check *)
(* holds for all 2^128 states and all keys at once.                        *)
(*                                                                         *)
(* Registers and memory cells hold either a concrete word (addresses, the  *)
(* round counter, stack pointer: two 16-bit limbs, tag "c") or a symbolic  *)
(* word (32 polynomials, tag "s").  Loads of the state words give the      *)
(* variables X(0..127); loads of the key words give 1 + K(i) because the   *)
(* structure stores the key pre-inverted.  Only bitwise instructions are   *)
(* defined on symbolic words; arithmetic, addresses and branch conditions  *)
(* must be concrete (anything else is reported).                           *)
(*                                                                         *)
(* Cut points.  One round (128 steps) keeps the polynomials small (a few   *)
(* thousand monomials at most); several rounds do not.  The programs end   *)
(* every round with a conditional branch on the round counter.  At each    *)
(* such branch (and at the return) the model                               *)
(*   1. computes the specification's polynomials for one round from the    *)
(*      current variables, with the key offset of that round;              *)
(*   2. requires that each of the four expected words is held by some      *)
(*      register or stack cell (and, at the return, by the state words in  *)
(*      memory);                                                           *)
(*   3. replaces every holder by FRESH variables and continues.            *)
(* So for every round position in the loop body: for ALL states and keys   *)
(* the code computes exactly Step^128.  Loop control over 1..24 rounds and *)
(* the ABI clauses are Mach32's business (concrete runs).                  *)
(***************************************************************************)
EXTENDS Limbs, Poly, TLC, Json, IOUtils, SequencesExt

Prog  == ndJsonDeserialize(IOEnv.PROG)
Meta  == ndJsonDeserialize(IOEnv.META)[1]
KeyBits == Meta.keybits                      \* 128, 192 or 256
Rounds == Meta.symrounds                     \* rounds to run (one more than the loop body holds)

LB == 16
BASE == 4096
SP0 == 32768
STACKLO == SP0 - 512
RETADDR == 20480
MaxSteps == 5000

VARIABLES pc, R, M, Z, zsym, sar, round, halted, steps,
          exp      \* the specification's state after the round in progress (128 polynomials), computed once per round
vars == <<pc, R, M, Z, zsym, sar, round, halted, steps, exp>>

C(limbs) == [t |-> "c", v |-> limbs]
S(word) == [t |-> "s", v |-> word]
IsC(x) == x.t = "c"

\* variables: state bit j of "generation" g is g * 1000 + j ; key bit i is 900000 + i
X(g, j) == Var(g * 1000 + j)
K(i) == Var(900000 + i)
StateWord(g, w) == [i \in 1..32 |-> X(g, 32 * w + i - 1)]
KeyWordInv(w) == [i \in 1..32 |-> NotP(K(32 * w + i - 1))]

NKW == KeyBits \div 32
StructAddrs == {BASE + 4 * i : i \in 0..(3 + NKW)}
StateAddrs == {BASE + 4 * i : i \in 0..3}
StackAddrs == {a \in STACKLO..(SP0 - 1) : a % 4 = 0}

InitMem == [a \in StructAddrs \cup StackAddrs |->
              IF a \in StackAddrs THEN C(<<57005, 48879>>)
              ELSE LET i == (a - BASE) \div 4 IN IF i < 4 THEN S(StateWord(0, i)) ELSE S(KeyWordInv(i - 4))]
InitRegs == [r \in 0..(Meta.nregs - 1) |->
               IF r = Meta.sp THEN C(FromNat(SP0, 2, LB))
               ELSE IF r = Meta.ra THEN C(FromNat(RETADDR, 2, LB))
               ELSE IF r = Meta.arg0 THEN C(FromNat(BASE, 2, LB))
               ELSE IF r = Meta.arg1 THEN C(FromNat(Rounds, 2, LB))
               ELSE C(FromNat(24576 + 16 * r, 2, LB))]

Fail(reason) == /\ PrintT(ToJson([isafail |-> reason, test |-> round, pc |-> pc]))
                /\ TLCSet(1, TLCGet(1) + 1)
Check(ok, reason) == IF ok THEN TRUE ELSE Fail(reason)

I == Prog[pc]
Reg(r) == IF r = Meta.zero THEN C(<<0, 0>>) ELSE R[r]
SetReg(r, v) == IF r = Meta.zero THEN R ELSE [R EXCEPT ![r] = v]
Sym(x) == IF IsC(x) THEN ConstW(x.v) ELSE x.v
Stop == halted' = TRUE /\ UNCHANGED <<pc, R, M, Z, zsym, sar, round, exp>>
NextPc == pc' = pc + 1

---------------------------------------------------------------------------
\* the specification, symbolically: one step and one round of the NLFSR over polynomials
SymStep(St, kpoly) == Tail(St) \o <<XorP(XorP(XorP(St[1], St[48]), NotP(AndP(St[71], St[86]))), XorP(St[92], kpoly))>>
SymRound(St, off) == FoldLeft(LAMBDA acc, i : SymStep(acc, K((off + i) % KeyBits)), St, [i \in 1..128 |-> i - 1])
CurState(g) == [j \in 1..128 |-> X(g, j - 1)]
ExpectedRound(g) == SymRound(CurState(g), (128 * g) % KeyBits)
ExpWords == [w \in 0..3 |-> SubSeq(exp, 32 * w + 1, 32 * w + 32)]

Init == /\ exp = ExpectedRound(0)
        /\ pc = 1 /\ R = InitRegs /\ M = InitMem /\ Z = FALSE /\ zsym = TRUE /\ sar = -1 /\ round = 0 /\ halted = FALSE /\ steps = 0
        /\ TLCSet(1, 0) /\ TLCSet(2, 0)

\* cut: every expected word must be held somewhere; all holders are re-labelled with fresh variables
Holders(word) == [regs |-> {r \in DOMAIN R : ~IsC(R[r]) /\ R[r].v = word},
                  cells |-> {a \in DOMAIN M : ~IsC(M[a]) /\ M[a].v = word}]
Cut(E, g1, mustBeInState) ==
    LET H == [w \in 0..3 |-> Holders(E[w])] IN
    /\ Check(\A w \in 0..3 : H[w].regs # {} \/ H[w].cells # {},
             "after this round no register or stack cell holds the specification's state word (for all inputs)")
    /\ Check(~mustBeInState \/ \A w \in 0..3 : (BASE + 4 * w) \in H[w].cells,
             "at the return the state words in memory are not the specification's permutation (for all inputs)")
    /\ R' = [r \in DOMAIN R |-> IF \E w \in 0..3 : r \in H[w].regs
                                THEN S(StateWord(g1, CHOOSE w \in 0..3 : r \in H[w].regs)) ELSE R[r]]
    /\ M' = [a \in DOMAIN M |-> IF \E w \in 0..3 : a \in H[w].cells
                                THEN S(StateWord(g1, CHOOSE w \in 0..3 : a \in H[w].cells)) ELSE M[a]]

---------------------------------------------------------------------------
AddrOf(base, imm) == ToNat(AddImmV(Reg(base).v, imm, LB), LB)

DoLd == IF ~IsC(Reg(I.a)) \/ AddrOf(I.a, I.imm) \notin DOMAIN M
        THEN Fail("load address is not a concrete address inside the structure or the stack") /\ Stop
        ELSE /\ R' = SetReg(I.d, M[AddrOf(I.a, I.imm)])
             /\ NextPc /\ UNCHANGED <<M, Z, zsym, sar, round, halted, exp>>
DoSt == LET a == AddrOf(I.a, I.imm) IN
        IF ~IsC(Reg(I.a)) \/ ~(a \in StateAddrs \/ a \in StackAddrs)
        THEN Fail("store address is not concrete or outside the state words and the stack") /\ Stop
        ELSE /\ M' = IF I.w = 2 THEN [M EXCEPT ![a] = Reg(I.d), ![a + 4] = C(<<0, 0>>)] ELSE [M EXCEPT ![a] = Reg(I.d)]
             /\ NextPc /\ UNCHANGED <<R, Z, zsym, sar, round, halted, exp>>

\* a correct round needs products of a few dozen monomials; far beyond that the run is abandoned as inconclusive
Budget == 400000
TooBig(a, b) == \E i \in 1..32 : Cardinality(a[i]) * Cardinality(b[i]) > Budget

ShiftSym(w, sk, sa) == IF sk = 1 THEN ShlW(w, sa) ELSE IF sk = 2 THEN ShrW(w, sa) ELSE w
DoAlu ==
    LET a == Reg(I.a)  b == Reg(I.b) IN
    IF I.f = "mov" /\ I.sk = 0
    THEN /\ R' = SetReg(I.d, b) /\ Z' = Z /\ zsym' = zsym /\ NextPc /\ UNCHANGED <<M, sar, round, halted, exp>>
    ELSE IF I.f \in {"and", "or"} /\ TooBig(Sym(a), ShiftSym(Sym(b), I.sk, I.sa))
    THEN Fail("symbolic budget exceeded") /\ Stop
    ELSE LET bs == ShiftSym(Sym(b), I.sk, I.sa)
             v == CASE I.f = "xor" -> XorW(Sym(a), bs)
                    [] I.f = "and" -> AndW(Sym(a), bs)
                    [] I.f = "or"  -> OrW(Sym(a), bs)
                    [] I.f = "mov" -> bs
         IN  /\ R' = SetReg(I.d, S(v))
             /\ Z' = Z /\ zsym' = (IF I.setf = 1 THEN TRUE ELSE zsym)     \* flags set from data: a branch on them is reported
             /\ NextPc /\ UNCHANGED <<M, sar, round, halted, exp>>
\* RV64: registers hold the sign extension of their low word; a 64-bit logical right shift (no "w") therefore
\* shifts copies of bit 31 into the low word, a "w" shift shifts in zeros
ShrSx(w, n) == [i \in 1..32 |-> IF i + n <= 32 THEN w[i + n] ELSE w[32]]
DoShi == LET a == Reg(I.a)
             v == IF I.f = "shl" THEN ShlW(Sym(a), I.imm)
                  ELSE IF Meta.xl = 4 /\ I.w32 = 0 THEN ShrSx(Sym(a), I.imm) ELSE ShrW(Sym(a), I.imm)
         IN
         /\ R' = SetReg(I.d, S(v))
         /\ zsym' = (IF I.setf = 1 THEN TRUE ELSE zsym) /\ Z' = Z
         /\ NextPc /\ UNCHANGED <<M, sar, round, halted, exp>>
DoAddi == IF ~IsC(Reg(I.a)) THEN Fail("arithmetic on state or key bits") /\ Stop
          ELSE LET v == AddImmV(Reg(I.a).v, I.imm, LB) IN
               /\ R' = SetReg(I.d, C(v))
               /\ Z' = IF I.setf = 1 THEN IsZeroV(v) ELSE Z
               /\ zsym' = (IF I.setf = 1 THEN FALSE ELSE zsym)
               /\ NextPc /\ UNCHANGED <<M, sar, round, halted, exp>>
DoSsai == sar' = I.imm /\ NextPc /\ UNCHANGED <<R, M, Z, zsym, round, halted, exp>>
DoSrc == IF sar < 0 THEN Fail("funnel shift before any ssai: the result depends on what the caller left in SAR") /\ Stop ELSE
         /\ R' = SetReg(I.d, S(SubSeq(ShrW(Sym(Reg(I.b)) \o Sym(Reg(I.a)), sar), 1, 32)))
         /\ NextPc /\ UNCHANGED <<M, Z, zsym, sar, round, halted, exp>>

\* a conditional branch on the (concrete) round counter ends a round: cut, then branch
DoBr ==
    IF I.cond = "always" THEN pc' = I.t /\ UNCHANGED <<R, M, Z, zsym, sar, round, halted, exp>>
    ELSE IF (I.cond \in {"regz", "regnz", "eqi", "nei"} /\ ~IsC(Reg(I.a))) \/ (I.cond \in {"z", "nz"} /\ zsym)
    THEN Fail("branch condition depends on state or key bits") /\ Stop
    ELSE LET taken == CASE I.cond = "z" -> Z [] I.cond = "nz" -> ~Z
                        [] I.cond = "regz" -> IsZeroV(Reg(I.a).v) [] I.cond = "regnz" -> ~IsZeroV(Reg(I.a).v)
                        [] I.cond = "eqi" -> Reg(I.a).v = FromNat(I.imm, 2, LB)
                        [] I.cond = "nei" -> Reg(I.a).v # FromNat(I.imm, 2, LB)
             E == ExpWords
         IN  IF \E w \in 0..3 : Holders(E[w]).regs = {} /\ Holders(E[w]).cells = {}
             THEN Fail("after this round no register or stack cell holds the specification's state word (for all inputs)") /\ Stop
             ELSE /\ Cut(E, round + 1, FALSE)
                  /\ round' = round + 1
                  /\ exp' = ExpectedRound(round + 1)
                  /\ pc' = IF taken THEN I.t ELSE pc + 1
                  /\ UNCHANGED <<Z, zsym, sar, halted>>

DoPush == LET n == Len(I.list)  sp1 == ToNat(Reg(Meta.sp).v, LB) - 4 * n IN
          /\ M' = [a \in DOMAIN M |-> IF a >= sp1 /\ a < sp1 + 4 * n /\ a % 4 = 0 THEN R[I.list[((a - sp1) \div 4) + 1]] ELSE M[a]]
          /\ R' = [R EXCEPT ![Meta.sp] = C(FromNat(sp1, 2, LB))]
          /\ NextPc /\ UNCHANGED <<Z, zsym, sar, round, halted, exp>>

\* at the return the state words in memory must be the variables introduced by the last cut
Final == /\ Check(round = Rounds, "the symbolic run did not pass through the expected number of rounds")
         /\ Check(\A w \in 0..3 : ~IsC(M[BASE + 4 * w]) /\ M[BASE + 4 * w].v = StateWord(round, w),
                  "the stored state words are not the state after the last round (for all inputs)")
         /\ Check(\A i \in 0..(NKW - 1) : M[BASE + 16 + 4 * i] = S(KeyWordInv(i)), "key words were modified")
         /\ TLCSet(2, TLCGet(2) + 1)

DoPop == LET n == Len(I.list)  sp0 == ToNat(Reg(Meta.sp).v, LB) IN
         IF \E j \in 1..n : I.list[j] = Meta.pcreg THEN Final /\ Stop
         ELSE /\ R' = [r \in DOMAIN R |-> IF r = Meta.sp THEN C(FromNat(sp0 + 4 * n, 2, LB))
                                          ELSE IF \E j \in 1..n : I.list[j] = r THEN M[sp0 + 4 * ((CHOOSE j \in 1..n : I.list[j] = r) - 1)] ELSE R[r]]
              /\ NextPc /\ UNCHANGED <<M, Z, zsym, sar, round, halted, exp>>
DoRet == Final /\ Stop
DoEntry == /\ R' = [R EXCEPT ![Meta.sp] = C(AddImmV(R[Meta.sp].v, 0 - I.imm, LB))]
           /\ NextPc /\ UNCHANGED <<M, Z, zsym, sar, round, halted, exp>>

Step ==
    /\ ~halted
    /\ steps' = steps + 1
    /\ IF steps >= MaxSteps \/ pc < 1 \/ pc > Len(Prog)
       THEN Fail("does not terminate / runs off the end of the function") /\ Stop
       ELSE CASE I.op = "ld" -> DoLd [] I.op = "st" -> DoSt [] I.op = "alu" -> DoAlu [] I.op = "shi" -> DoShi
              [] I.op = "addi" -> DoAddi [] I.op = "ssai" -> DoSsai [] I.op = "src" -> DoSrc [] I.op = "br" -> DoBr
              [] I.op = "push" -> DoPush [] I.op = "pop" -> DoPop [] I.op = "ret" -> DoRet [] I.op = "entry" -> DoEntry
              [] OTHER -> Fail("instruction outside the modelled subset") /\ Stop

Next == Step
Spec == Init /\ [][Next]_vars
AllRan == TLCGet(1) = 0 /\ TLCGet(2) = 1
=============================================================================
