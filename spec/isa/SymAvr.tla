--------------------------------- MODULE SymAvr ---------------------------------
(***************************************************************************)
(* Symbolic execution of the AVR back ends (see Sym32 for the method):     *)
(* registers and memory bytes hold either a concrete byte (tag "c") or a   *)
(* symbolic byte (8 GF(2) polynomials, tag "s"); the carry flag is a       *)
(* polynomial too, since the code shifts 32-bit quantities through it.     *)
(* State byte j of generation g holds the variables X(g, 8j..8j+7); key    *)
(* bytes are stored pre-inverted.  Cut points are the conditional branches *)
(* on the round counter (dec r22 / breq / brne): the sixteen expected      *)
(* state bytes of the specification's round must each be held by a         *)
(* register (or stack byte), and are re-labelled with fresh variables.     *)
(***************************************************************************)
EXTENDS Naturals, Integers, Sequences, Poly, TLC, Json, IOUtils, SequencesExt

Prog  == ndJsonDeserialize(IOEnv.PROG)
Meta  == ndJsonDeserialize(IOEnv.META)[1]
KeyBits == Meta.keybits
Rounds == Meta.symrounds

BASE == 4096
SP0 == 8192
STACKLO == SP0 - 64
MaxSteps == 20000

VARIABLES pc, R, M, SP, Cf, Z, zsym, round, halted, steps,
          exp      \* the specification's state after the round in progress (128 polynomials), computed once per round
vars == <<pc, R, M, SP, Cf, Z, zsym, round, halted, steps, exp>>

CB(b) == [t |-> "c", v |-> b]
SB(w) == [t |-> "s", v |-> w]
IsC(x) == x.t = "c"
P2b == <<1, 2, 4, 8, 16, 32, 64, 128>>
ConstB(b) == [i \in 1..8 |-> IF (b \div P2b[i]) % 2 = 1 THEN One ELSE Zero]
SymB(x) == IF IsC(x) THEN ConstB(x.v) ELSE x.v

X(g, j) == Var(g * 1000 + j)
K(i) == Var(900000 + i)
StateByte(g, b) == [i \in 1..8 |-> X(g, 8 * b + i - 1)]
KeyByteInv(b) == [i \in 1..8 |-> NotP(K(8 * b + i - 1))]
NKB == KeyBits \div 8
StructAddrs == BASE..(BASE + 15 + NKB)
StateAddrs == BASE..(BASE + 15)
StackAddrs == STACKLO..(SP0 + 2)

Fail(reason) == /\ PrintT(ToJson([isafail |-> reason, test |-> round, pc |-> pc]))
                /\ TLCSet(1, TLCGet(1) + 1)
Check(ok, reason) == IF ok THEN TRUE ELSE Fail(reason)
I == Prog[pc]
Stop == halted' = TRUE /\ UNCHANGED <<pc, R, M, SP, Cf, Z, zsym, round, exp>>
NextPc == pc' = pc + 1

SymStep(St, kpoly) == Tail(St) \o <<XorP(XorP(XorP(St[1], St[48]), NotP(AndP(St[71], St[86]))), XorP(St[92], kpoly))>>
SymRound(St, off) == FoldLeft(LAMBDA acc, i : SymStep(acc, K((off + i) % KeyBits)), St, [i \in 1..128 |-> i - 1])
ExpectedRound(g) == SymRound([j \in 1..128 |-> X(g, j - 1)], (128 * g) % KeyBits)
ExpByte(b) == SubSeq(exp, 8 * b + 1, 8 * b + 8)
Init == /\ pc = 1
        /\ R = [r \in 0..31 |-> IF r = 24 THEN CB(BASE % 256) ELSE IF r = 25 THEN CB(BASE \div 256)
                                ELSE IF r = 22 THEN CB(Rounds) ELSE IF r = 23 THEN CB(0) ELSE IF r = 1 THEN CB(0) ELSE CB(64 + r)]
        /\ M = [a \in StructAddrs \cup StackAddrs |->
                  IF a \in StackAddrs THEN CB(238)
                  ELSE IF a - BASE < 16 THEN SB(StateByte(0, a - BASE)) ELSE SB(KeyByteInv(a - BASE - 16))]
        /\ SP = SP0 /\ Cf = Zero /\ Z = FALSE /\ zsym = FALSE /\ round = 0 /\ halted = FALSE /\ steps = 0
        /\ exp = ExpectedRound(0)
        /\ TLCSet(1, 0) /\ TLCSet(2, 0)

HoldR(w) == {r \in 0..31 : ~IsC(R[r]) /\ R[r].v = w}
HoldM(w) == {a \in DOMAIN M : ~IsC(M[a]) /\ M[a].v = w}

\* unary operations on a (possibly symbolic) byte through the (possibly symbolic) carry
DoUnary ==
    LET x == R[I.d] IN
    IF I.op \in {"dec", "inc"}
    THEN IF ~IsC(x) THEN Fail("arithmetic on state or key bits") /\ Stop
         ELSE LET v == IF I.op = "dec" THEN (x.v + 255) % 256 ELSE (x.v + 1) % 256 IN
              /\ R' = [R EXCEPT ![I.d] = CB(v)] /\ Z' = (v = 0) /\ zsym' = FALSE
              /\ NextPc /\ UNCHANGED <<M, SP, Cf, round, halted, exp>>
    ELSE LET w == SymB(x)
             v == CASE I.op = "lsl" -> <<Zero>> \o SubSeq(w, 1, 7)
                    [] I.op = "rol" -> <<Cf>> \o SubSeq(w, 1, 7)
                    [] I.op = "lsr" -> SubSeq(w, 2, 8) \o <<Zero>>
                    [] I.op = "ror" -> SubSeq(w, 2, 8) \o <<Cf>>
                    [] I.op = "com" -> [i \in 1..8 |-> NotP(w[i])]
                    [] I.op = "clr" -> [i \in 1..8 |-> Zero]
             c == CASE I.op \in {"lsl", "rol"} -> w[8] [] I.op \in {"lsr", "ror"} -> w[1] [] I.op = "com" -> One [] OTHER -> Cf
         IN  /\ R' = [R EXCEPT ![I.d] = SB(v)] /\ Cf' = c /\ Z' = Z /\ zsym' = TRUE
             /\ NextPc /\ UNCHANGED <<M, SP, round, halted, exp>>

Budget == 400000
DoBinary ==
    LET a == SymB(R[I.d])  b == SymB(R[I.a]) IN
    IF I.op \in {"and", "or"} /\ \E i \in 1..8 : Cardinality(a[i]) * Cardinality(b[i]) > Budget
    THEN Fail("symbolic budget exceeded") /\ Stop
    ELSE LET v == CASE I.op = "eor" -> [i \in 1..8 |-> XorP(a[i], b[i])]
                    [] I.op = "and" -> [i \in 1..8 |-> AndP(a[i], b[i])]
                    [] I.op = "or"  -> [i \in 1..8 |-> XorP(XorP(a[i], b[i]), AndP(a[i], b[i]))]
         IN  /\ R' = [R EXCEPT ![I.d] = SB(v)] /\ Z' = Z /\ zsym' = TRUE
             /\ NextPc /\ UNCHANGED <<M, SP, Cf, round, halted, exp>>

DoMov == R' = [R EXCEPT ![I.d] = R[I.a]] /\ NextPc /\ UNCHANGED <<M, SP, Cf, Z, zsym, round, halted, exp>>
DoMovw == R' = [R EXCEPT ![I.d] = R[I.a], ![I.d + 1] = R[I.a + 1]] /\ NextPc /\ UNCHANGED <<M, SP, Cf, Z, zsym, round, halted, exp>>
PtrOK == IsC(R[I.a]) /\ IsC(R[I.a + 1])
PtrAddr == R[I.a].v + 256 * R[I.a + 1].v + I.imm
DoLdp == IF ~PtrOK \/ PtrAddr \notin DOMAIN M THEN Fail("load address is not a concrete address inside the structure or the stack") /\ Stop
         ELSE R' = [R EXCEPT ![I.d] = M[PtrAddr]] /\ NextPc /\ UNCHANGED <<M, SP, Cf, Z, zsym, round, halted, exp>>
DoStp == IF ~PtrOK \/ PtrAddr \notin StateAddrs THEN Fail("store address is not concrete or outside the state bytes") /\ Stop
         ELSE M' = [M EXCEPT ![PtrAddr] = R[I.d]] /\ NextPc /\ UNCHANGED <<R, SP, Cf, Z, zsym, round, halted, exp>>
DoPush == M' = [M EXCEPT ![SP] = R[I.d]] /\ SP' = SP - 1 /\ NextPc /\ UNCHANGED <<R, Cf, Z, zsym, round, halted, exp>>
DoPop == R' = [R EXCEPT ![I.d] = M[SP + 1]] /\ SP' = SP + 1 /\ NextPc /\ UNCHANGED <<M, Cf, Z, zsym, round, halted, exp>>

DoBr ==
    IF I.cond = "always" THEN pc' = I.t /\ UNCHANGED <<R, M, SP, Cf, Z, zsym, round, halted, exp>>
    ELSE IF zsym THEN Fail("branch condition depends on state or key bits") /\ Stop
    ELSE LET HR == [b \in 0..15 |-> HoldR(ExpByte(b))]
             HM == [b \in 0..15 |-> HoldM(ExpByte(b))]
             taken == (I.cond = "z" /\ Z) \/ (I.cond = "nz" /\ ~Z)
         IN  IF \E b \in 0..15 : HR[b] = {} /\ HM[b] = {}
             THEN Fail("after this round no register or stack byte holds the specification's state byte (for all inputs)") /\ Stop
             ELSE /\ R' = [r \in 0..31 |-> IF \E b \in 0..15 : r \in HR[b]
                                           THEN SB(StateByte(round + 1, CHOOSE b \in 0..15 : r \in HR[b])) ELSE R[r]]
                  /\ M' = [a \in DOMAIN M |-> IF \E b \in 0..15 : a \in HM[b]
                                              THEN SB(StateByte(round + 1, CHOOSE b \in 0..15 : a \in HM[b])) ELSE M[a]]
                  /\ round' = round + 1
                  /\ exp' = ExpectedRound(round + 1)
                  /\ pc' = IF taken THEN I.t ELSE pc + 1
                  /\ UNCHANGED <<SP, Cf, Z, zsym, halted>>

DoRet == /\ Check(round = Rounds, "the symbolic run did not pass through the expected number of rounds")
         /\ Check(\A b \in 0..15 : ~IsC(M[BASE + b]) /\ M[BASE + b].v = StateByte(round, b),
                  "the stored state bytes are not the state after the last round (for all inputs)")
         /\ Check(\A b \in 0..(NKB - 1) : M[BASE + 16 + b] = SB(KeyByteInv(b)), "key bytes were modified")
         /\ TLCSet(2, TLCGet(2) + 1)
         /\ Stop

Step ==
    /\ ~halted
    /\ steps' = steps + 1
    /\ IF steps >= MaxSteps \/ pc < 1 \/ pc > Len(Prog)
       THEN Fail("does not terminate / runs off the end of the function") /\ Stop
       ELSE CASE I.op \in {"lsl", "rol", "lsr", "ror", "dec", "inc", "com", "clr"} -> DoUnary
              [] I.op \in {"eor", "and", "or"} -> DoBinary
              [] I.op = "mov" -> DoMov [] I.op = "movw" -> DoMovw [] I.op = "ldp" -> DoLdp [] I.op = "stp" -> DoStp
              [] I.op = "push" -> DoPush [] I.op = "pop" -> DoPop [] I.op = "br" -> DoBr [] I.op = "ret" -> DoRet
              [] OTHER -> Fail("instruction outside the modelled subset") /\ Stop
Next == Step
Spec == Init /\ [][Next]_vars
AllRan == TLCGet(1) = 0 /\ TLCGet(2) = 1
=============================================================================
