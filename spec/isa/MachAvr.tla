-------------------------------- MODULE MachAvr --------------------------------
(***************************************************************************)
(* An executable model of the AVR (avr5) subset the three AVR back ends    *)
(* use: push, pop, mov, movw, ld/ldd and st/std through X/Y/Z with         *)
(* displacement, lsl, lsr, rol, ror (through the carry flag), eor, and,    *)
(* or, dec, inc, com, clr, breq, brne, rjmp, ret.  Registers r0..r31 are   *)
(* bytes, memory is a function from byte addresses to bytes, the stack     *)
(* pointer post-decrements on push.  avr-gcc calling convention: first     *)
(* argument (pointer) in r25:r24, second (rounds) in r23:r22; r2..r17,     *)
(* r28, r29 are callee-saved, r1 is zero on entry and on return; the       *)
(* caller's return address lies on the stack above the entry stack pointer.*)
(* Checks: as in Mach32.                                                   *)
(***************************************************************************)
EXTENDS Limbs, TLC, Json, IOUtils, SequencesExt, FiniteSets

Prog  == ndJsonDeserialize(IOEnv.PROG)
Tests == ndJsonDeserialize(IOEnv.TESTS)
Meta  == ndJsonDeserialize(IOEnv.META)[1]

BASE == 4096
SP0 == 8192
STACKLO == SP0 - 64
RETHI == 171
RETLO == 205
MaxSteps == 60000

VARIABLES pc, R, M, SP, C, Z, tR, tM, tC, tZ, halted, tst, steps
vars == <<pc, R, M, SP, C, Z, tR, tM, tC, tZ, halted, tst, steps>>

INSTANCE TJPerm

NKB(T) == Len(T.k)
Expected(T) == BitsBytes(Perm(BytesBits(T.s), BytesBits(T.k), 128 * T.rounds))
StructAddrs(T) == BASE..(BASE + 15 + NKB(T))
StateAddrs == BASE..(BASE + 15)
StackAddrs == STACKLO..(SP0 + 2)

Sentinel(r) == 64 + r
InitMem(T) == [a \in StructAddrs(T) \cup StackAddrs |->
                 IF a = SP0 + 1 THEN RETHI ELSE IF a = SP0 + 2 THEN RETLO
                 ELSE IF a \in StackAddrs THEN 238
                 ELSE IF a - BASE < 16 THEN T.s[a - BASE + 1] ELSE 255 - T.k[a - BASE - 15]]   \* key pre-inverted
InitRegs(T) == [r \in 0..31 |-> IF r = 24 THEN BASE % 256 ELSE IF r = 25 THEN BASE \div 256
                                ELSE IF r = 22 THEN T.rounds % 256 ELSE IF r = 23 THEN T.rounds \div 256
                                ELSE IF r = 1 THEN 0 ELSE Sentinel(r)]

Init == /\ tst \in 1..Len(Tests)
        /\ pc = 1 /\ R = InitRegs(Tests[tst]) /\ M = InitMem(Tests[tst]) /\ SP = SP0
        /\ C = 0 /\ Z = FALSE /\ tR = {} /\ tM = {} /\ tC = FALSE /\ tZ = FALSE /\ halted = FALSE /\ steps = 0
        /\ TLCSet(1, 0) /\ TLCSet(2, 0)

Fail(reason) == /\ PrintT(ToJson([isafail |-> reason, test |-> tst, pc |-> pc]))
                /\ TLCSet(1, TLCGet(1) + 1)
Check(ok, reason) == IF ok THEN TRUE ELSE Fail(reason)

I == Prog[pc]
Stop == /\ halted' = TRUE /\ UNCHANGED <<pc, R, M, SP, C, Z, tR, tM, tC, tZ, tst>>
NextPc == pc' = pc + 1
Taint(d, on) == tR' = IF on THEN tR \cup {d} ELSE tR \ {d}

\* one-register ALU operations: value, new carry, taints
DoUnary ==
    LET x == R[I.d]
        tx == I.d \in tR
        v == CASE I.op = "lsl" -> (x * 2) % 256
               [] I.op = "rol" -> ((x * 2) % 256) + C
               [] I.op = "lsr" -> x \div 2
               [] I.op = "ror" -> (x \div 2) + 128 * C
               [] I.op = "dec" -> (x + 255) % 256
               [] I.op = "inc" -> (x + 1) % 256
               [] I.op = "com" -> 255 - x
               [] I.op = "clr" -> 0
        c == CASE I.op \in {"lsl", "rol"} -> x \div 128
               [] I.op \in {"lsr", "ror"} -> x % 2
               [] I.op = "com" -> 1
               [] OTHER -> C
        tv == CASE I.op \in {"rol", "ror"} -> tx \/ tC
                [] I.op = "clr" -> FALSE
                [] OTHER -> tx
    IN  /\ R' = [R EXCEPT ![I.d] = v]
        /\ C' = c /\ tC' = (IF I.op \in {"lsl", "rol", "lsr", "ror"} THEN tx ELSE IF I.op = "com" THEN FALSE ELSE tC)
        /\ Z' = (v = 0) /\ tZ' = tv
        /\ Taint(I.d, tv)
        /\ NextPc /\ UNCHANGED <<M, SP, tM, halted, tst>>

DoBinary ==
    LET v == CASE I.op = "eor" -> R[I.d] ^^ R[I.a]
               [] I.op = "and" -> R[I.d] & R[I.a]
               [] I.op = "or"  -> R[I.d] | R[I.a]
        tv == (I.d \in tR \/ I.a \in tR) /\ ~(I.op = "eor" /\ I.d = I.a)
    IN  /\ R' = [R EXCEPT ![I.d] = v]
        /\ Z' = (v = 0) /\ tZ' = tv /\ Taint(I.d, tv)
        /\ NextPc /\ UNCHANGED <<M, SP, C, tM, tC, halted, tst>>

DoMov == /\ R' = [R EXCEPT ![I.d] = R[I.a]] /\ Taint(I.d, I.a \in tR)
         /\ NextPc /\ UNCHANGED <<M, SP, C, Z, tM, tC, tZ, halted, tst>>
DoMovw == /\ R' = [R EXCEPT ![I.d] = R[I.a], ![I.d + 1] = R[I.a + 1]]
          /\ tR' = (tR \ {I.d, I.d + 1}) \cup (IF I.a \in tR THEN {I.d} ELSE {}) \cup (IF (I.a + 1) \in tR THEN {I.d + 1} ELSE {})
          /\ NextPc /\ UNCHANGED <<M, SP, C, Z, tM, tC, tZ, halted, tst>>

PtrAddr == R[I.a] + 256 * R[I.a + 1] + I.imm
PtrSecret == I.a \in tR \/ (I.a + 1) \in tR

DoLdp ==
    IF PtrSecret \/ PtrAddr \notin DOMAIN M
    THEN Fail("load from an address outside the structure and the stack, or secret-dependent") /\ Stop
    ELSE /\ R' = [R EXCEPT ![I.d] = M[PtrAddr]]
         /\ Taint(I.d, PtrAddr \in StructAddrs(Tests[tst]) \/ PtrAddr \in tM)
         /\ NextPc /\ UNCHANGED <<M, SP, C, Z, tM, tC, tZ, halted, tst>>

DoStp ==
    IF PtrSecret \/ PtrAddr \notin StateAddrs
    THEN Fail("store outside the sixteen state bytes, or to a secret-dependent address") /\ Stop
    ELSE /\ M' = [M EXCEPT ![PtrAddr] = R[I.d]]
         /\ tM' = IF I.d \in tR THEN tM \cup {PtrAddr} ELSE tM \ {PtrAddr}
         /\ NextPc /\ UNCHANGED <<R, SP, C, Z, tR, tC, tZ, halted, tst>>

DoPush ==
    IF SP <= STACKLO THEN Fail("stack overflow") /\ Stop
    ELSE /\ M' = [M EXCEPT ![SP] = R[I.d]] /\ SP' = SP - 1
         /\ tM' = IF I.d \in tR THEN tM \cup {SP} ELSE tM \ {SP}
         /\ NextPc /\ UNCHANGED <<R, C, Z, tR, tC, tZ, halted, tst>>
DoPop ==
    IF SP + 1 > SP0 THEN Fail("stack underflow: pops the caller's frame") /\ Stop
    ELSE /\ R' = [R EXCEPT ![I.d] = M[SP + 1]] /\ SP' = SP + 1
         /\ Taint(I.d, (SP + 1) \in tM)
         /\ NextPc /\ UNCHANGED <<M, C, Z, tM, tC, tZ, halted, tst>>

DoBr ==
    IF I.cond # "always" /\ tZ THEN Fail("branch condition depends on state or key bits") /\ Stop
    ELSE /\ pc' = IF I.cond = "always" \/ (I.cond = "z" /\ Z) \/ (I.cond = "nz" /\ ~Z) THEN I.t ELSE pc + 1
         /\ UNCHANGED <<R, M, SP, C, Z, tR, tM, tC, tZ, halted, tst>>

DoRet ==
    LET T == Tests[tst]
        E == Expected(T)
    IN  /\ Check(\A i \in 1..16 : M[BASE + i - 1] = E[i], "state words differ from the specification's permutation")
        /\ Check(\A i \in 1..NKB(T) : M[BASE + 15 + i] = 255 - T.k[i], "key words were modified")
        /\ Check(SP = SP0, "stack pointer not restored")
        /\ Check(\A j \in 1..Len(Meta.saved) : R[Meta.saved[j]] = Sentinel(Meta.saved[j]), "callee-saved register not restored")
        /\ Check(R[1] = 0, "r1 is not zero on return")
        /\ Check(M[SP0 + 1] = RETHI /\ M[SP0 + 2] = RETLO, "return address on the stack was overwritten")
        /\ TLCSet(2, TLCGet(2) + 1)
        /\ Stop

Step ==
    /\ ~halted
    /\ steps' = steps + 1
    /\ IF steps >= MaxSteps \/ pc < 1 \/ pc > Len(Prog)
       THEN Fail("does not terminate / runs off the end of the function") /\ Stop
       ELSE CASE I.op \in {"lsl", "rol", "lsr", "ror", "dec", "inc", "com", "clr"} -> DoUnary
              [] I.op \in {"eor", "and", "or"} -> DoBinary
              [] I.op = "mov"  -> DoMov
              [] I.op = "movw" -> DoMovw
              [] I.op = "ldp"  -> DoLdp
              [] I.op = "stp"  -> DoStp
              [] I.op = "push" -> DoPush
              [] I.op = "pop"  -> DoPop
              [] I.op = "br"   -> DoBr
              [] I.op = "ret"  -> DoRet
              [] OTHER         -> Fail("instruction outside the modelled subset") /\ Stop

Next == Step
Spec == Init /\ [][Next]_vars
AllRan == TLCGet(1) = 0 /\ TLCGet(2) = Len(Tests)
=============================================================================
