-------------------------------- MODULE Limbs --------------------------------
(***************************************************************************)
(* Machine words as little-endian sequences of LB-bit limbs (non-negative  *)
(* integers below 2^LB), so that no TLC integer ever exceeds 2^24.         *)
(* 32-bit word: 2 limbs of 16 bits; RV64 register: 4 limbs; AVR register:  *)
(* 1 limb of 8 bits.  Bitwise operations come from the community module    *)
(* Bitwise (defined there by recursion over the bits).                     *)
(***************************************************************************)
EXTENDS Naturals, Integers, Sequences, Bitwise

P2x == <<1, 2, 4, 8, 16, 32, 64, 128, 256, 512, 1024, 2048, 4096, 8192, 16384, 32768, 65536>>
Pow2(n) == P2x[n + 1]                       \* n in 0..16

Get(a, i) == IF i >= 1 /\ i <= Len(a) THEN a[i] ELSE 0

XorV(a, b) == [i \in 1..Len(a) |-> a[i] ^^ b[i]]
AndV(a, b) == [i \in 1..Len(a) |-> a[i] & b[i]]
OrV(a, b)  == [i \in 1..Len(a) |-> a[i] | b[i]]
NotV(a, LB) == [i \in 1..Len(a) |-> (Pow2(LB) - 1) - a[i]]
ZeroV(n) == [i \in 1..n |-> 0]
IsZeroV(a) == \A i \in 1..Len(a) : a[i] = 0

\* logical shifts of the whole Len(a)*LB-bit value by n >= 0 bits
ShrV(a, n, LB) ==
    LET q == n \div LB  r == n % LB IN
    [i \in 1..Len(a) |-> IF r = 0 THEN Get(a, i + q)
                         ELSE (Get(a, i + q) \div Pow2(r)) + (Get(a, i + q + 1) % Pow2(r)) * Pow2(LB - r)]
ShlV(a, n, LB) ==
    LET q == n \div LB  r == n % LB IN
    [i \in 1..Len(a) |-> IF r = 0 THEN Get(a, i - q)
                         ELSE ((Get(a, i - q) % Pow2(LB - r)) * Pow2(r)) + (Get(a, i - q - 1) \div Pow2(LB - r))]

\* a + k for a small integer k (|k| < 2^LB), modulo 2^(Len(a)*LB)
RECURSIVE AddC(_, _, _, _)
AddC(a, i, c, LB) ==      \* c in {-1, 0, 1} after the first limb
    IF i > Len(a) THEN <<>>
    ELSE LET s == a[i] + c
             m == Pow2(LB)
         IN  IF s < 0 THEN <<s + m>> \o AddC(a, i + 1, -1, LB)
             ELSE IF s >= m THEN <<s - m>> \o AddC(a, i + 1, 1, LB)
             ELSE <<s>> \o AddC(a, i + 1, 0, LB)
AddImmV(a, k, LB) == AddC(a, 1, k, LB)

\* small non-negative integer of a value (addresses, counters): defined when the upper limbs are small
ToNat(a, LB) == IF Len(a) = 1 THEN a[1] ELSE a[1] + Pow2(LB) * a[2]
FromNat(x, n, LB) == [i \in 1..n |-> IF i = 1 THEN x % Pow2(LB) ELSE IF i = 2 THEN (x \div Pow2(LB)) % Pow2(LB) ELSE 0]
UpperZero(a) == \A i \in 3..Len(a) : a[i] = 0

\* low 32 bits sign-extended to Len(a) limbs of 16 bits (RV64 word operations)
SextW(a) == [i \in 1..Len(a) |-> IF i <= 2 THEN a[i] ELSE IF a[2] >= 32768 THEN 65535 ELSE 0]
=============================================================================
