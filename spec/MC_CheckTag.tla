----------------------------- MODULE MC_CheckTag -----------------------------
(***************************************************************************)
(* Design-level model of tag verification (C03, C04).                      *)
(*                                                                         *)
(* The implementation compares the computed and the received tag with a    *)
(* byte-serial, branch-free algorithm: OR-accumulate the XOR of the bytes, *)
(* fold the accumulator to all-ones/zero, AND the plaintext with it.  The  *)
(* model runs that algorithm one byte per step from every difference       *)
(* pattern in Patterns and checks, in the final state, that its verdict    *)
(* and its plaintext output equal the specification CheckTag: accept iff   *)
(* the tags are equal; on reject every plaintext byte is zero.             *)
(*                                                                         *)
(* Patterns: every assignment of a difference value from DiffVals to each  *)
(* of the 8 positions (includes the all-equal pattern and patterns whose   *)
(* differences are equal in several positions, which would cancel under an *)
(* XOR-accumulator), plus every single-byte difference 8 x 255.            *)
(***************************************************************************)
EXTENDS TJAead, FiniteSets, TLC

CONSTANT DiffVals

Tag1 == <<17, 34, 51, 68, 85, 102, 119, 136>>
Pt   == <<200, 1, 128, 255, 7>>

Single == { [i \in 1..8 |-> IF i = p THEN d ELSE 0] : p \in 1..8, d \in 1..255 }
Patterns == [1..8 -> DiffVals] \cup Single

VARIABLES pat, i, acc, done, res, mout
vars == <<pat, i, acc, done, res, mout>>

Tag2 == [j \in 1..8 |-> XorByte(Tag1[j], pat[j])]

Init == /\ pat \in Patterns
        /\ i = 0 /\ acc = 0 /\ done = FALSE /\ res = 0 /\ mout = Pt

\* one iteration of the comparison loop
Accumulate ==
    /\ ~done /\ i < 8
    /\ acc' = OrByte(acc, XorByte(Tag1[i + 1], Tag2[i + 1]))
    /\ i' = i + 1
    /\ UNCHANGED <<pat, done, res, mout>>

\* fold, mask the plaintext, return
Finish ==
    /\ ~done /\ i = 8
    /\ LET mask == FoldMask(acc) IN
       /\ res' = -1 - mask
       /\ mout' = [j \in 1..Len(Pt) |-> IF mask = -1 THEN Pt[j] ELSE 0]
    /\ done' = TRUE
    /\ UNCHANGED <<pat, i, acc>>

Next == Accumulate \/ Finish
Spec == Init /\ [][Next]_vars

TypeOK == acc \in 0..255 /\ i \in 0..8 /\ res \in {0, -1}

\* the algorithm agrees with the specification of the verdict
Correct ==
    done => LET x == CheckTag(Pt, Tag1, Tag2) IN res = x.res /\ mout = x.m

\* accept iff every difference is zero
AcceptIff == done => ((res = 0) <=> (\A j \in 1..8 : pat[j] = 0))

\* on reject no byte of the candidate plaintext survives
NoLeak == (done /\ res = -1) => \A j \in 1..Len(Pt) : mout[j] = 0

\* the whole-function form used by the trace specification is the same function
AlgoEqSpec == done => CheckTagAlgo(Pt, Tag1, Tag2) = [res |-> res, m |-> mout]

\* the fold: for every accumulator value, (a - 1) >> 8 is all-ones iff a = 0
ASSUME \A a \in 0..255 : (FoldMask(a) = -1) <=> (a = 0)
=============================================================================
