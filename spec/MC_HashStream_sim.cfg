SPECIFICATION Spec
CONSTANTS NObj = 3  MaxTotal = 200  MaxLen = 40  SimDepth = 14
INVARIANT StreamingEqOneShot
INVARIANT BufBound
INVARIANT PlanOut
CHECK_DEADLOCK FALSE
