------------------------------- MODULE TJMode -------------------------------
(***************************************************************************)
(* The modes of operation - AEAD, SIV and the MDPH hash - as MACHINES whose *)
(* environment is the keyed permutation.                                   *)
(*                                                                         *)
(* TJAead / TJSiv / TJHash define the modes as functions and call Perm.    *)
(* Here the same modes are written the way the implementation is built:    *)
(* one action per call of tinyjambu_permutation_N.  A machine state knows  *)
(* what the next call must look like (input state, round count, key) and,  *)
(* given the ANSWER - any 128-bit value whatsoever - what follows.  The    *)
(* permutation is therefore not computed but observed (TV_Mode binds the   *)
(* answers to the logged ones), which makes two things checkable that the  *)
(* functional specification cannot reach from outside:                     *)
(*   - the exact sequence of permutation calls (how many, which rounds,    *)
(*     which domain byte, which key words, nothing before, between, after),*)
(*   - the behaviour of the mode on permutation outputs that a real key    *)
(*     produces with probability 2^-32 or less (keystream word equal to    *)
(*     its predecessor, all-ones words, fixed points): the harness answers *)
(*     with such values and the machine says what the mode must do.        *)
(* MC_Mode (ModeRefines) checks with TLC that the machine, run with the    *)
(* real permutation as its environment, computes AeadEnc / AeadDec /       *)
(* SivEnc / SivDec / Hash.                                                 *)
(*                                                                         *)
(* States are 16-byte sequences here (word j of the C state = bytes        *)
(* 4j+1..4j+4, little-endian), keys are byte sequences.                    *)
(***************************************************************************)
EXTENDS TJBits, Integers

Z16 == Zeros(16)

\* XOR the bytes bs into S from (1-based) byte position pos
XorAtB(S, pos, bs) ==
    [i \in 1..Len(S) |-> IF i >= pos /\ i < pos + Len(bs) THEN XorByte(S[i], bs[i - pos + 1]) ELSE S[i]]

AddDomB(S, d) == XorAtB(S, 5, <<d>>)          \* state bits 32..39
SqueezeB(S)   == SubSeq(S, 9, 12)             \* state bits 64..95
NotBytes(bs)  == [i \in 1..Len(bs) |-> 255 - bs[i]]

LongRounds(v) == CASE v = 128 -> 8 [] v = 192 -> 9 [] v = 256 -> 10
ShortRounds == 5
HashRounds == 20

\* absorb the 1..4 bytes w after a permutation call: data at bits 96.., the length of a partial block at bits 32..
AbsorbB(S, w) ==
    LET S1 == XorAtB(S, 13, w) IN IF Len(w) = 4 THEN S1 ELSE XorAtB(S1, 5, <<Len(w)>>)

----------------------------------------------------------------------------
\* programs: sequences of step descriptors [kind, dom, long, w]
StepD(kind, dom, long, w) == [kind |-> kind, dom |-> dom, long |-> long, w |-> w]

SetupProg(nonce, dom) ==
    <<StepD("key", 0, TRUE, <<>>)>> \o
    [i \in 1..3 |-> StepD("abs", dom, FALSE, SubSeq(nonce, 4 * i - 3, 4 * i))]

BlockProg(kind, dom, long, data) ==
    LET c == Chunks(data, 4) IN [j \in 1..Len(c) |-> StepD(kind, dom, long, c[j])]

TagProg == <<StepD("tag1", 112, TRUE, <<>>), StepD("tag2", 112, FALSE, <<>>)>>

\* the 16-byte blocks of a hashed message: full blocks with domain 0, the padded last block with domain 2
HashProg(m) ==
    LET nb   == Len(m) \div 16
        last == SubSeq(m, 16 * nb + 1, Len(m)) \o <<1>> \o Zeros(15 - (Len(m) - 16 * nb))
        blk(j) == IF j <= nb THEN SubSeq(m, 16 * j - 15, 16 * j) ELSE last
    IN  FoldLeft(LAMBDA acc, j : acc \o <<StepD("hL", IF j <= nb THEN 0 ELSE 2, TRUE, blk(j)),
                                          StepD("hR", IF j <= nb THEN 0 ELSE 2, TRUE, blk(j))>>,
                 <<>>, [j \in 1..(nb + 1) |-> j])

----------------------------------------------------------------------------
(* The machine.  c is the call: [op, v, k, n, ad, x] with x the plaintext   *)
(* (encryption, hash) or the whole packet (decryption).                    *)
Body(c) == SubSeq(c.x, 1, Len(c.x) - 8)
RTag(c) == SubSeq(c.x, Len(c.x) - 7, Len(c.x))
IsDec(c) == c.op \in {"adec", "sdec"}
Refused(c) == IsDec(c) /\ Len(c.x) < 8           \* shorter than a tag: no permutation call at all

Start(c) ==
    [c |-> c, stage |-> 1, S |-> Z16, R |-> Z16, L2 |-> Z16, o |-> <<>>, t |-> <<>>,
     prog |-> CASE Refused(c) -> <<>>
              [] c.op = "aenc" -> SetupProg(c.n, 16) \o BlockProg("abs", 48, FALSE, c.ad) \o
                                  BlockProg("enc", 80, TRUE, c.x) \o TagProg
              [] c.op = "adec" -> SetupProg(c.n, 16) \o BlockProg("abs", 48, FALSE, c.ad) \o
                                  BlockProg("dec", 80, TRUE, Body(c)) \o TagProg
              [] c.op = "senc" -> SetupProg(c.n, 144) \o BlockProg("abs", 48, FALSE, c.ad) \o
                                  BlockProg("abs", 80, TRUE, c.x) \o TagProg
              [] c.op = "sdec" -> SetupProg(SubSeq(c.n, 1, 4) \o RTag(c), 176) \o BlockProg("ks", 208, TRUE, Body(c))
              [] c.op = "hash" -> HashProg(c.x)]

Done(q) == q.prog = <<>>

\* what the next permutation call must look like
NextIn(q) ==
    LET d == Head(q.prog) IN
    CASE d.kind = "key" -> Z16
      [] d.kind = "hL"  -> XorAtB(q.S, 1, <<d.dom>>)
      [] d.kind = "hR"  -> XorAtB(XorAtB(q.S, 1, <<d.dom>>), 1, <<1>>)
      [] OTHER          -> AddDomB(q.S, d.dom)
NextRounds(q) ==
    LET d == Head(q.prog) IN
    IF d.kind \in {"hL", "hR"} THEN HashRounds ELSE IF d.long THEN LongRounds(q.c.v) ELSE ShortRounds
\* the key words as the permutation receives them: pre-inverted
NextKey(q) ==
    LET d == Head(q.prog) IN
    IF d.kind \in {"hL", "hR"} THEN NotBytes(q.R \o d.w) ELSE NotBytes(q.c.k)

\* second pass of SIV, entered when the first pass's program is exhausted
Continue(q) ==
    IF q.prog # <<>> \/ q.stage # 1 THEN q
    ELSE CASE q.c.op = "senc" ->
                 [q EXCEPT !.stage = 2, !.o = <<>>,
                           !.prog = SetupProg(SubSeq(q.c.n, 1, 4) \o q.t, 176) \o BlockProg("ks", 208, TRUE, q.c.x)]
           [] q.c.op = "sdec" ->
                 [q EXCEPT !.stage = 2,
                           !.prog = SetupProg(q.c.n, 144) \o BlockProg("abs", 48, FALSE, q.c.ad) \o
                                    BlockProg("abs", 80, TRUE, q.o) \o TagProg]
           [] OTHER -> q

\* the permutation answered "out"
Answer(q, out) ==
    LET d  == Head(q.prog)
        q1 == [q EXCEPT !.prog = Tail(q.prog)]
        q2 == CASE d.kind = "key"  -> [q1 EXCEPT !.S = out]
                [] d.kind = "abs"  -> [q1 EXCEPT !.S = AbsorbB(out, d.w)]
                [] d.kind = "enc"  -> [q1 EXCEPT !.S = AbsorbB(out, d.w), !.o = q.o \o XorBytes(d.w, SqueezeB(out))]
                [] d.kind = "dec"  -> LET p == XorBytes(d.w, SqueezeB(out)) IN
                                      [q1 EXCEPT !.S = AbsorbB(out, p), !.o = q.o \o p]
                [] d.kind = "ks"   -> [q1 EXCEPT !.S = out, !.o = q.o \o XorBytes(d.w, SqueezeB(out))]
                [] d.kind = "tag1" -> [q1 EXCEPT !.S = out, !.t = SqueezeB(out)]
                [] d.kind = "tag2" -> [q1 EXCEPT !.S = out, !.t = q.t \o SqueezeB(out)]
                [] d.kind = "hL"   -> [q1 EXCEPT !.L2 = XorBytes(out, NextIn(q))]
                [] d.kind = "hR"   -> [q1 EXCEPT !.R = XorBytes(out, NextIn(q)), !.S = q.L2]
    IN  Continue(q2)

\* the result of the call once the program is exhausted
Verdict(q) ==
    CASE q.c.op \in {"aenc", "senc"} -> [res |-> 0, out |-> q.o \o q.t, wrote |-> TRUE]
      [] q.c.op = "hash"             -> [res |-> 0, out |-> q.S \o q.R, wrote |-> TRUE]
      [] Refused(q.c)                -> [res |-> -1, out |-> <<>>, wrote |-> FALSE]
      [] OTHER -> IF q.t = RTag(q.c) THEN [res |-> 0, out |-> q.o, wrote |-> TRUE]
                  ELSE [res |-> -1, out |-> Zeros(Len(q.o)), wrote |-> TRUE]

=============================================================================
