------------------------------- MODULE TV_Trng -------------------------------
(***************************************************************************)
(* Trace specification for the system entropy source (C18).                *)
(*                                                                         *)
(* Events: Start (variant), Os (one per operating-system call the source   *)
(* made: function name and the scripted outcome), Trng (the call's return: *)
(* result, whether the buffer holds exactly the OS bytes, number of        *)
(* non-zero bytes, guard bytes around the buffer, file-descriptor delta).  *)
(* The machine of TJTrng is driven by the Os events: every OS call must be *)
(* the one the machine makes next (so a call after the verdict, or a       *)
(* missing retry, has no matching action) and the return must be the       *)
(* machine's.                                                              *)
(***************************************************************************)
EXTENDS TVBase, TJTrng

VARIABLES l, s, variant
vars == <<l, s, variant>>

TStart == /\ Tr[l].e = "Start"
          /\ variant' = Tr[l].variant
          /\ s' = TrngInit(Tr[l].variant)

TOs == /\ Tr[l].e = "Os"
       /\ LET e == Tr[l] IN
          /\ Judge(s.pc # "done", l, e, "an operating-system call after the source has reached its verdict")
          /\ Judge(s.pc = "done" \/ (e.fn = NextCall(s) /\ e.o \in Outcomes(s)), l, e, NextCall(s))
          /\ Judge(s.pc # "opt" \/ e.o \notin {"OK", "PARTIAL"} \/ e.len < 32, l, e, "after a partial delivery only the remainder may be asked for")
          /\ Judge(e.fn \in {"open", "close"} \/ (e.len >= 1 /\ e.len <= 32), l, e, "asks for at most the 32 bytes of the seed")
          /\ s' = IF s.pc # "done" /\ e.o \in Outcomes(s) THEN TrngStep(s, e.o) ELSE s
       /\ variant' = variant

TTrng == /\ Tr[l].e = "Trng"
         /\ LET e == Tr[l] IN
            /\ Judge(s.pc \in {"done", "opt"}, l, e, "returned while the machine still expects an operating-system call: " \o NextCall(s))
            /\ Judge(e.res = s.res, l, e, s.res)
            /\ Judge((s.res = 1 /\ s.buf = "os") => e.isos = 1, l, e, "on success the buffer holds exactly the 32 OS bytes")
            /\ Judge(s.res = 0 => e.nonzero = 0, l, e, "on failure the seed buffer is all zero")
            /\ Judge(e.guard = 1 /\ e.fdleak = 0, l, e, "nothing outside the 32-byte buffer is written, no descriptor leaked")
         /\ s' = TrngInit(variant) /\ variant' = variant

THang == /\ Tr[l].e = "Hang"
         /\ Judge(FALSE, l, Tr[l], "the source never returned (more than 150000 operating-system calls)")
         /\ UNCHANGED <<s, variant>>

Init == l = 1 /\ InitRegs /\ variant = "getrandom" /\ s = TrngInit("getrandom")
Next == /\ l <= Len(Tr)
        /\ l' = l + 1
        /\ (TStart \/ TOs \/ TTrng \/ THang)
Spec == Init /\ [][Next]_vars
TraceAccepted == Accepted(Len(Tr))
=============================================================================
