----------------------------- MODULE MC_HkdfCtl -----------------------------
(***************************************************************************)
(* Design-level model of incremental HKDF output (C13), data-abstract.     *)
(*                                                                         *)
(* Byte j (1..32) of output block T(n) is the token 32*(n-1)+j, i.e. its   *)
(* position in the RFC 5869 stream T(1) || T(2) || ... || T(255); a        *)
(* zero-filled byte is the token 0.  The specification of the object is    *)
(* then: the k-th byte ever served after an extract is k for k <= 8160     *)
(* and 0 beyond, and a call returns -1 iff it was asked to go past 8160.   *)
(*                                                                         *)
(* Expand is written as the algorithm of the code: hand out what is left   *)
(* of the current block, then generate blocks with an 8-bit counter that   *)
(* wraps to 0 after block 255, 0 meaning exhausted.  State: counter, posn, *)
(* tblk (number of the block held in the buffer), total (bytes served).    *)
(*                                                                         *)
(* Two instances are checked: the real scale (B = 32, NBlocks = 255) with  *)
(* request lengths around the 8160 limit, and a scaled-down one (B = 4,    *)
(* NBlocks = 4) where TLC enumerates every sequence of requests of every   *)
(* length 0..20.                                                           *)
(***************************************************************************)
EXTENDS Naturals, Integers, Sequences, SequencesExt, TLC, Json

CONSTANTS Lens, MaxTotal, SimDepth,
          B,        \* block size (32 in the library)
          NBlocks   \* number of blocks before exhaustion (255: an 8-bit counter); the counter counts modulo NBlocks+1

VARIABLES live, counter, posn, tblk, total, lastres, lastok, hist
vars == <<live, counter, posn, tblk, total, lastres, lastok, hist>>
view == <<live, counter, posn, tblk, total, lastres, lastok>>

Limit == B * NBlocks
Tok(n, j) == B * (n - 1) + j
Ideal(k) == IF k <= Limit THEN k ELSE 0

Init == /\ live = FALSE /\ counter = 0 /\ posn = 0 /\ tblk = 0 /\ total = 0
        /\ lastres = 0 /\ lastok = TRUE /\ hist = <<>>

Extract ==
    /\ live' = TRUE /\ counter' = 1 /\ posn' = B /\ tblk' = 0 /\ total' = 0
    /\ lastres' = 0 /\ lastok' = TRUE
    /\ hist' = Append(hist, [op |-> "hkextract", len |-> 0])

\* the algorithm: returns [n, ok, counter, posn, tblk, res] where n = bytes written so far and
\* ok = every byte written so far is the byte the specification (Ideal) puts at that position
ExpandAlgo(len) ==
    LET left == B - posn
        n0   == IF left < len THEN left ELSE len
        ok0  == \A j \in 1..n0 : Tok(tblk, posn + j) = Ideal(total + j)
        nb   == (len - n0 + B - 1) \div B
    IN  FoldLeft(LAMBDA a, i :
                    IF a.res = -1 THEN a
                    ELSE IF a.counter = 0
                         THEN [a EXCEPT !.res = -1, !.n = len,          \* zero-fill the rest
                                        !.ok = a.ok /\ \A j \in (a.n + 1)..len : 0 = Ideal(total + j)]
                         ELSE LET need == len - a.n
                                  take == IF need < B THEN need ELSE B
                              IN  [n |-> a.n + take,
                                   ok |-> a.ok /\ \A j \in 1..take : Tok(a.counter, j) = Ideal(total + a.n + j),
                                   counter |-> (a.counter + 1) % (NBlocks + 1), posn |-> take, tblk |-> a.counter, res |-> 0],
                 [n |-> n0, ok |-> ok0, counter |-> counter, posn |-> posn + n0, tblk |-> tblk, res |-> 0],
                 [i \in 1..nb |-> i])

Expand(len) ==
    /\ live /\ total + len <= MaxTotal
    /\ LET r == ExpandAlgo(len) IN
       /\ counter' = r.counter /\ posn' = r.posn /\ tblk' = r.tblk
       /\ total' = total + len
       /\ lastres' = r.res
       \* the specification of this call: exactly the next len bytes of the ideal stream, and -1 iff
       \* at least one byte past the limit was requested (a zero-length request asks for nothing)
       /\ lastok' = /\ r.n = len
                    /\ r.ok
                    /\ (r.res = -1) <=> (len > 0 /\ total + len > Limit)
    /\ live' = live
    /\ hist' = Append(hist, [op |-> "hkexpand", len |-> len])

Free ==
    /\ live
    /\ live' = FALSE /\ counter' = 0 /\ posn' = 0 /\ tblk' = 0 /\ total' = 0 /\ lastres' = 0 /\ lastok' = TRUE
    /\ hist' = Append(hist, [op |-> "hkfree", len |-> 0])

Next == Extract \/ Free \/ \E n \in Lens : Expand(n)
Spec == Init /\ [][Next]_vars

\* C13: every expand call serves exactly the next bytes of T(1)||...||T(255), zeros past 8160, -1 iff past 8160
ServesRfcStream == lastok
\* the 8-bit counter: 1..255, or 0 = exhausted, which is reached exactly when block 255 has been generated
CounterRange == live => /\ counter \in 0..NBlocks /\ posn \in 0..B
                        /\ (counter = 0) <=> (tblk = NBlocks)
\* exhausted is terminal until the next extract
Terminal == [][(live /\ counter = 0 /\ live') => counter' = 0 \/ (counter' = 1 /\ total' = 0)]_vars

PlanOut == Len(hist) < SimDepth \/ PrintT(<<"PLAN", ToJson(hist)>>)
=============================================================================
