----------------------------- MODULE MC_PermEquiv -----------------------------
(***************************************************************************)
(* Step32 (32 steps by one function constructor) = Step1 applied 32 times, *)
(* and Perm = PermBitSerial, checked by TLC on unit states, unit keys,     *)
(* all-ones, tap-pair states and pseudo-random states for the three key    *)
(* lengths.  This licenses the use of Perm in the mode specifications.     *)
(***************************************************************************)
EXTENDS TJPerm, TLC

Unit(n, i) == [j \in 1..n |-> j = i]
Ones(n) == [j \in 1..n |-> TRUE]
\* a cheap pseudo-random bit string
Rnd(n, a) == [j \in 1..n |-> ((j * j * a + 7 * j + a) % 11) < 5]
Pair(i, k) == [j \in 1..128 |-> j = i \/ j = k]

States == {Unit(128, i) : i \in {1, 2, 32, 33, 47, 48, 49, 70, 71, 72, 85, 86, 87, 91, 92, 93, 96, 97, 127, 128}}
          \cup {Ones(128), Unit(128, 0), Pair(71, 86), Pair(1, 48), Pair(92, 128)} \cup {Rnd(128, a) : a \in 1..6}
Keys(n) == {Unit(n, i) : i \in {1, 32, 33, 64, 65, 96, 97, n - 31, n}} \cup {Ones(n), Unit(n, 0), Rnd(n, 3), Rnd(n, 8)}

ASSUME \A n \in {128, 192, 256} : \A S \in States : \A K \in Keys(n) : \A off \in {0, 32, n - 32} :
          Step32(S, K, off) = FoldLeft(LAMBDA acc, i : Step1(acc, K, off + i), S, Idx(32))
ASSUME \A n \in {128, 192, 256} : \A S \in {Rnd(128, 1), Ones(128), Unit(128, 71)} : \A K \in {Rnd(n, 5), Unit(n, n)} :
          \A steps \in {128, 384, 640, 1024, 1152, 1280} : Perm(S, K, steps) = PermBitSerial(S, K, steps)

VARIABLE x
Init == x = 0
Next == UNCHANGED x
Spec == Init /\ [][Next]_x
=============================================================================
