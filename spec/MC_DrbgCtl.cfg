SPECIFICATION Spec
CONSTANTS Sizes = {0, 1, 32, 33, 100, 1100}  Limits = {0, 1, 33, 64, 1024}  FeedLens = {1}
          MaxCounter = 40  MaxOps = 5  SimDepth = 1000
VIEW view
CONSTRAINT Bounded
INVARIANT TypeOK
INVARIANT SinceVsCounter
INVARIANT NeverStuck
PROPERTY ReseedBound
PROPERTY FeedMonotone
PROPERTY LimitRule
PROPERTY TruthfulStatus
CHECK_DEADLOCK FALSE
