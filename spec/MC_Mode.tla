------------------------------- MODULE MC_Mode -------------------------------
(***************************************************************************)
(* The mode machines of TJMode, run by TLC with the REAL permutation as     *)
(* their environment: one TLC step per permutation call.  Invariants:       *)
(*   ModeRefines   when the program of a call is exhausted, the machine's   *)
(*                 verdict is the value of the functional specification     *)
(*                 (AeadEnc, AeadDec, SivEnc, SivDec, Hash);                *)
(*   CallCount     the number of calls is the closed form of the lengths    *)
(*                 (5+ceil(ad/4)+ceil(m/4)+... ), so no call is missing or   *)
(*                 doubled;                                                 *)
(*   TypeOK        shapes.                                                  *)
(* The calls: every (op, key size, adlen, mlen) of a small window, genuine  *)
(* packets and packets with one flipped bit in body or tag, short packets.  *)
(***************************************************************************)
EXTENDS TJModeFn, TLC

CONSTANTS MaxAd, MaxM, MaxH,
          Ops        \* which public operations this run explores

VARIABLES q, n
vars == <<q, n>>

RealP(in, kinv, r) == BitsBytes(Perm(BytesBits(in), BytesBits(NotBytes(kinv)), 128 * r))

\* fixed, structured test data (bytes with high bits set, distinct per position)
Dat(len, salt) == [i \in 1..len |-> (37 * i + 101 * salt + 128) % 256]
KeyOf(v) == Dat(v \div 8, 3)
NonceOf == Dat(12, 5)
FlipBit(s, b) == [i \in 1..Len(s) |-> IF i = (b \div 8) + 1 THEN XorByte(s[i], P2[(b % 8) + 1]) ELSE s[i]]

EncCalls ==
    { [op |-> op, v |-> v, k |-> KeyOf(v), n |-> NonceOf, ad |-> Dat(a, 7), x |-> Dat(m, 9)] :
        op \in {"aenc", "senc"}, v \in {128, 192, 256}, a \in 0..MaxAd, m \in 0..MaxM }

PacketOf(c) == IF c.op = "aenc" THEN AeadEnc(c.k, c.n, c.ad, c.x) ELSE SivEnc(c.k, c.n, c.ad, c.x)

DecCalls ==
    UNION { LET p == PacketOf(c) dop == IF c.op = "aenc" THEN "adec" ELSE "sdec" IN
            { [c EXCEPT !.op = dop, !.x = p],
              [c EXCEPT !.op = dop, !.x = FlipBit(p, 8 * Len(p) - 1)],          \* last tag bit
              [c EXCEPT !.op = dop, !.x = FlipBit(p, 8 * (Len(p) - 8))],        \* first tag bit
              [c EXCEPT !.op = dop, !.x = FlipBit(p, 0)],                       \* first bit of the packet
              [c EXCEPT !.op = dop, !.x = SubSeq(p, 1, Len(p) - 1)],            \* truncated
              [c EXCEPT !.op = dop, !.x = SubSeq(p, 1, 7)] }                    \* shorter than a tag
            : c \in { e \in EncCalls : e.v = 128 \/ Len(e.ad) + Len(e.x) < 8 } }

HashCalls == { [op |-> "hash", v |-> 256, k |-> <<>>, n |-> <<>>, ad |-> <<>>, x |-> Dat(m, 11)] : m \in 0..MaxH }

Calls == { c \in EncCalls \cup DecCalls \cup HashCalls : c.op \in Ops }

Init == \E c \in Calls : q = Start(c) /\ n = 0

Step ==
    /\ ~Done(q)
    /\ q' = Answer(q, RealP(NextIn(q), NextKey(q), NextRounds(q)))
    /\ n' = n + 1

Next == Step
Spec == Init /\ [][Next]_vars

ModeRefines == Done(q) => Verdict(q) = Functional(q.c)

W(len) == (len + 3) \div 4
ExpectedCalls(c) ==
    CASE Refused(c)    -> 0
      [] c.op = "aenc" -> 4 + W(Len(c.ad)) + W(Len(c.x)) + 2
      [] c.op = "adec" -> 4 + W(Len(c.ad)) + W(Len(c.x) - 8) + 2
      [] c.op = "senc" -> 4 + W(Len(c.ad)) + W(Len(c.x)) + 2 + 4 + W(Len(c.x))
      [] c.op = "sdec" -> 4 + W(Len(c.ad)) + W(Len(c.x) - 8) + 2 + 4 + W(Len(c.x) - 8)
      [] c.op = "hash" -> 2 * ((Len(c.x) \div 16) + 1)

CallCount == (Done(q) => n = ExpectedCalls(q.c)) /\ n <= ExpectedCalls(q.c)

TypeOK == /\ Len(q.S) = 16 /\ Len(q.R) = 16 /\ IsBytes(q.S) /\ IsBytes(q.R) /\ IsBytes(q.o) /\ IsBytes(q.t)
          /\ Len(q.t) \in {0, 4, 8} /\ q.stage \in {1, 2}
=============================================================================
