SPECIFICATION Spec
CONSTANT DiffVals = {0, 1, 128, 255, 85}
INVARIANT TypeOK
INVARIANT Correct
INVARIANT AcceptIff
INVARIANT NoLeak
INVARIANT AlgoEqSpec
CHECK_DEADLOCK FALSE
