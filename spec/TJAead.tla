------------------------------- MODULE TJAead -------------------------------
(***************************************************************************)
(* TinyJAMBU v2 authenticated encryption (NIST LWC finalist), all three    *)
(* key sizes, as functions over byte strings.                              *)
(*                                                                         *)
(*   key   : 16, 24 or 32 bytes    nonce : 12 bytes                        *)
(*   frame bits 1, 3, 5, 7 are XORed into state bits 36..38, i.e. the      *)
(*   bytes 0x10, 0x30, 0x50, 0x70 into state bits 32..39                   *)
(*   data words are XORed into state bits 96..127                          *)
(*   keystream / tag words are state bits 64..95                           *)
(*   a partial last block of r bytes (1..3) additionally XORs r into state *)
(*   bits 32..33                                                           *)
(*                                                                         *)
(* The operators are parameterised by the nonce-setup and message domain   *)
(* bytes so that the SIV mode (TJSiv) reuses them with 0x90 / 0xB0 / 0xD0. *)
(***************************************************************************)
EXTENDS TJPerm, Integers

Zero128 == ZeroBits(128)

AddDom(S, d) == XorAt(S, 32, ByteBits(d))
Squeeze(S)   == BitsBytes(SubSeq(S, 65, 96))      \* 4 bytes, little-endian word s[2]

\* key schedule + nonce absorption
Setup(K, nonce, dom) ==
    LET S0 == Perm(Zero128, K, PLong(Len(K)))
        N(S, i) == XorAt(Perm(AddDom(S, dom), K, PShort), 96,
                         BytesBits(SubSeq(nonce, 4 * i + 1, 4 * i + 4)))
    IN  N(N(N(S0, 0), 1), 2)

\* absorb one block w of 1..4 bytes
AbsorbBlock(S, K, w, dom, steps) ==
    LET S1 == XorAt(Perm(AddDom(S, dom), K, steps), 96, BytesBits(w))
    IN  IF Len(w) = 4 THEN S1 ELSE XorAt(S1, 32, ByteBits(Len(w)))

\* absorb a byte string (associated data: dom 0x30, 640 steps)
Absorb(S, K, data, dom, steps) ==
    FoldLeft(LAMBDA acc, w : AbsorbBlock(acc, K, w, dom, steps), S, Chunks(data, 4))

\* encrypt one block: the plaintext is absorbed, the ciphertext is plaintext xor keystream
EncBlock(acc, K, w) ==
    LET S1 == Perm(AddDom(acc.S, 80), K, PLong(Len(K)))        \* 0x50
        S2 == XorAt(S1, 96, BytesBits(w))
        S3 == IF Len(w) = 4 THEN S2 ELSE XorAt(S2, 32, ByteBits(Len(w)))
    IN  [S |-> S3, out |-> acc.out \o XorBytes(w, Squeeze(S1))]

\* decrypt one block: the recovered plaintext (masked to the block length) is absorbed
DecBlock(acc, K, w) ==
    LET S1 == Perm(AddDom(acc.S, 80), K, PLong(Len(K)))
        p  == XorBytes(w, Squeeze(S1))
        S2 == XorAt(S1, 96, BytesBits(p))
        S3 == IF Len(w) = 4 THEN S2 ELSE XorAt(S2, 32, ByteBits(Len(w)))
    IN  [S |-> S3, out |-> acc.out \o p]

\* 64-bit tag
Tag(S, K) ==
    LET S1 == Perm(AddDom(S, 112), K, PLong(Len(K)))           \* 0x70
        S2 == Perm(AddDom(S1, 112), K, PShort)
    IN  Squeeze(S1) \o Squeeze(S2)

\* ciphertext || tag
AeadEnc(key, nonce, ad, m) ==
    LET K  == BytesBits(key)
        S0 == Absorb(Setup(K, nonce, 16), K, ad, 48, PShort)   \* 0x10, 0x30
        r  == FoldLeft(LAMBDA acc, w : EncBlock(acc, K, w), [S |-> S0, out |-> <<>>], Chunks(m, 4))
    IN  r.out \o Tag(r.S, K)

\* candidate plaintext and the tag the packet would need
AeadOpen(key, nonce, ad, body) ==
    LET K  == BytesBits(key)
        S0 == Absorb(Setup(K, nonce, 16), K, ad, 48, PShort)
        r  == FoldLeft(LAMBDA acc, w : DecBlock(acc, K, w), [S |-> S0, out |-> <<>>], Chunks(body, 4))
    IN  [m |-> r.out, tag |-> Tag(r.S, K)]

(***************************************************************************)
(* The verdict.  CheckTag is the specification of tinyjambu_aead_check_tag:*)
(* accept (0, plaintext kept) iff the two tags are equal, else reject (-1, *)
(* every plaintext byte zero).  Decryption of fewer than 8 bytes is        *)
(* refused with a negative result and writes nothing (wrote = FALSE).      *)
(***************************************************************************)
CheckTag(pt, tag1, tag2) ==
    IF tag1 = tag2 THEN [res |-> 0, m |-> pt] ELSE [res |-> -1, m |-> Zeros(Len(pt))]

AeadDec(key, nonce, ad, c) ==
    IF Len(c) < 8 THEN [res |-> -1, m |-> <<>>, wrote |-> FALSE]
    ELSE LET n == Len(c) - 8
             o == AeadOpen(key, nonce, ad, SubSeq(c, 1, n))
             v == CheckTag(o.m, o.tag, SubSeq(c, n + 1, n + 8))
         IN  [res |-> v.res, m |-> v.m, wrote |-> TRUE]

(***************************************************************************)
(* The byte-serial comparison the implementation uses, as an algorithm:    *)
(* OR-accumulate the XOR of the tag bytes, fold to 0 / all-ones with       *)
(* (accum - 1) >> 8 (arithmetic shift on a value in 0..255), AND the       *)
(* plaintext with it, return the complement.  MC_CheckTag shows this       *)
(* algorithm equals CheckTag for every difference pattern it enumerates.   *)
(***************************************************************************)
OrByte(a, b) ==
    LET x == ByteBits(a) y == ByteBits(b) IN
          B2N(x[1] \/ y[1])      + 2 * B2N(x[2] \/ y[2])  + 4 * B2N(x[3] \/ y[3])  + 8 * B2N(x[4] \/ y[4])
        + 16 * B2N(x[5] \/ y[5]) + 32 * B2N(x[6] \/ y[6]) + 64 * B2N(x[7] \/ y[7]) + 128 * B2N(x[8] \/ y[8])

\* floor((a - 1) / 256) for a in 0..255 is -1 iff a = 0, else 0: the arithmetic shift
FoldMask(a) == IF a - 1 < 0 THEN -1 ELSE 0

CheckTagAlgo(pt, tag1, tag2) ==
    LET acc  == FoldLeft(LAMBDA a, i : OrByte(a, XorByte(tag1[i], tag2[i])), 0, [i \in 1..Len(tag1) |-> i])
        mask == FoldMask(acc)                          \* -1 = keep, 0 = destroy
    IN  [res |-> -1 - mask,                            \* ~mask
         m   |-> [i \in 1..Len(pt) |-> IF mask = -1 THEN pt[i] ELSE 0]]
=============================================================================
