CONSTANTS Words = 8
          Budget = 100
SPECIFICATION Spec
