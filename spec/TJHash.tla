------------------------------- MODULE TJHash -------------------------------
(***************************************************************************)
(* TinyJAMBU-Hash as documented in tools/hashref/README.md (MDPH):         *)
(*                                                                         *)
(*  1. pad the input with a 1 bit (the byte 0x01) and zero bits to a       *)
(*     multiple of 128 bits; split into 16-byte blocks M[1..m]             *)
(*  2. L = R = 0 (128 bits each)                                           *)
(*  3. (L, R) = Compress(L, R, M[i]) for i < m                             *)
(*  4. (L, R) = Compress(L xor 2, R, M[m])                                 *)
(*  5. output L || R                                                       *)
(*                                                                         *)
(*  Compress(L, R, M):  K = R || M ;                                       *)
(*      L' = E(K, L) xor L ;  R' = E(K, L xor 1) xor L xor 1               *)
(*  E(K, P) = the TinyJAMBU-256 permutation, 2560 steps, key K, state P.   *)
(*                                                                         *)
(* L and R are 128-bit strings (bit i at index i+1, so "xor 1" flips       *)
(* index 1 and "xor 2" flips index 2); K is the 256-bit string R || M.     *)
(*                                                                         *)
(* The streaming object is the machine  [L, R, buf, st]  with actions      *)
(* HInit, HUpdate, HFinal, HFree; full blocks are compressed eagerly, so   *)
(* Len(buf) < 16 in every reachable state.                                 *)
(***************************************************************************)
EXTENDS TJPerm, Integers

HashSteps == 2560

Xor128(A, B) == [i \in 1..128 |-> A[i] # B[i]]

Compress(L, R, M, dom) ==
    LET K  == R \o BytesBits(M)
        Ld == XorAt(L, 0, ByteBits(dom))
        L1 == XorAt(Ld, 0, <<TRUE>>)
    IN  [L |-> Xor128(Perm(Ld, K, HashSteps), Ld),
         R |-> Xor128(Perm(L1, K, HashSteps), L1)]

\* 10* padding of the last (possibly empty) partial block
PadBlock(buf) == buf \o <<1>> \o Zeros(15 - Len(buf))

----------------------------------------------------------------------------
\* the streaming machine; st: "live" after init, "final" after finalize, "freed", "garbage"
HInit == [L |-> ZeroBits(128), R |-> ZeroBits(128), buf |-> <<>>, st |-> "live"]

\* absorb data: compress every full block, keep the rest
HUpdate(h, data) ==
    LET all  == h.buf \o data
        nb   == Len(all) \div 16
        r    == FoldLeft(LAMBDA acc, j : Compress(acc.L, acc.R, SubSeq(all, 16 * j + 1, 16 * j + 16), 0),
                         [L |-> h.L, R |-> h.R], Idx(nb))
    IN  [L |-> r.L, R |-> r.R, buf |-> SubSeq(all, 16 * nb + 1, Len(all)), st |-> h.st]

\* pad, compress with domain 2; the digest is L || R
HFinalState(h) ==
    LET r == Compress(h.L, h.R, PadBlock(h.buf), 2)
    IN  [L |-> r.L, R |-> r.R, buf |-> <<>>, st |-> "final"]

HDigestOf(h) == BitsBytes(h.L) \o BitsBytes(h.R)
HDigest(h) == HDigestOf(HFinalState(h))

HFreed == [L |-> ZeroBits(128), R |-> ZeroBits(128), buf |-> <<>>, st |-> "freed"]

\* one-shot hash
Hash(msg) == HDigest(HUpdate(HInit, msg))

\* the documented construction, written without the machine (used to cross-check it)
HashDoc(msg) ==
    LET nb == Len(msg) \div 16
        r  == FoldLeft(LAMBDA acc, j : Compress(acc.L, acc.R, SubSeq(msg, 16 * j + 1, 16 * j + 16), 0),
                       [L |-> ZeroBits(128), R |-> ZeroBits(128)], Idx(nb))
        f  == Compress(r.L, r.R, PadBlock(SubSeq(msg, 16 * nb + 1, Len(msg))), 2)
    IN  BitsBytes(f.L) \o BitsBytes(f.R)
=============================================================================
