------------------------------ MODULE MC_System ------------------------------
(***************************************************************************)
(* The library as one system: a set of caller-owned objects of the four    *)
(* stateful kinds (hash, HMAC, HKDF, PRNG) with their life cycles, and the *)
(* stateless calls (six ciphers, one-shot hash / HMAC / HKDF / PBKDF2),    *)
(* every public call an action.  The model is data-abstract; its purpose   *)
(* is (1) to state the cross-object invariants - an action on one object   *)
(* changes no other object, stateless calls change no object, an object    *)
(* is only used between its init and its free - and (2) to generate        *)
(* multi-object, cross-family histories (simulation mode) that are         *)
(* replayed into the real library and validated by ALL trace               *)
(* specifications at once: each of TV_Cipher, TV_Hash, TV_Prng and TV_Obs  *)
(* consumes the whole trace and treats the other families' events as       *)
(* stuttering steps, so interference between families or objects shows up  *)
(* as an output mismatch in the family that was disturbed.                 *)
(***************************************************************************)
EXTENDS Naturals, Sequences, SequencesExt, FiniteSets, TLC, Json

CONSTANTS NObj, MaxOps, SimDepth

Kinds == {"hash", "hmac", "hkdf", "prng"}
Objs == 0..(NObj - 1)

VARIABLES st,     \* st[k][o] in {"dead", "live", "final"}; ctr[k][o] counts the mutating calls on the object
          ctr, nops, hist
vars == <<st, ctr, nops, hist>>
view == <<st, nops>>

Init == /\ st = [k \in Kinds |-> [o \in Objs |-> "dead"]]
        /\ ctr = [k \in Kinds |-> [o \in Objs |-> 0]]
        /\ nops = 0 /\ hist = <<>>

Op(rec) == /\ nops < MaxOps /\ nops' = nops + 1 /\ hist' = Append(hist, rec)
Touch(k, o, s) == /\ st' = [st EXCEPT ![k][o] = s]
                  /\ ctr' = [ctr EXCEPT ![k][o] = ctr[k][o] + 1]

\* life cycle of the stateful kinds
InitObj(k, o) == /\ Op([op |-> "init", kind |-> k, obj |-> o, arg |-> 0]) /\ Touch(k, o, "live")
Use(k, o, n) == /\ st[k][o] = "live"
                /\ Op([op |-> "use", kind |-> k, obj |-> o, arg |-> n]) /\ Touch(k, o, "live")
Finish(k, o) == /\ k \in {"hash", "hmac"} /\ st[k][o] = "live"
                /\ Op([op |-> "final", kind |-> k, obj |-> o, arg |-> 0]) /\ Touch(k, o, "final")
FreeObj(k, o) == /\ Op([op |-> "free", kind |-> k, obj |-> o, arg |-> 0]) /\ Touch(k, o, "dead")
\* stateless calls
Stateless(f, n) == /\ Op([op |-> f, kind |-> "none", obj |-> 0, arg |-> n]) /\ UNCHANGED <<st, ctr>>

Next == \/ \E k \in Kinds, o \in Objs : InitObj(k, o) \/ Finish(k, o) \/ FreeObj(k, o)
        \/ \E k \in Kinds, o \in Objs, n \in {0, 1, 17, 33, 70} : Use(k, o, n)
        \/ \E f \in {"enc128", "enc192", "enc256", "siv128", "siv192", "siv256", "hash", "hmac", "hkdf", "pbkdf2"},
              n \in {0, 5, 33} : Stateless(f, n)
Spec == Init /\ [][Next]_vars

\* an action on one object leaves every other object alone; stateless calls leave all objects alone
Isolation ==
    [][\A k \in Kinds, o \in Objs :
          (hist' # hist /\ ~(Last(hist').kind = k /\ Last(hist').obj = o)) => (st'[k][o] = st[k][o] /\ ctr'[k][o] = ctr[k][o])]_vars
\* objects are only used while live
UsedWhileLive ==
    [][(hist' # hist /\ Last(hist').op \in {"use", "final"}) => st[Last(hist').kind][Last(hist').obj] = "live"]_vars

PlanOut == Len(hist) < SimDepth \/ PrintT(<<"PLAN", ToJson(hist)>>)
=============================================================================
