SPECIFICATION Spec
CONSTANTS Sizes = {1048640}  Limits = {1048575, 1048576, 1048577, 2097152}  FeedLens = {1}
          MaxCounter = 40000  MaxOps = 3  SimDepth = 1000
VIEW view
CONSTRAINT Bounded
INVARIANT TypeOK
INVARIANT SinceVsCounter
PROPERTY ReseedBound
PROPERTY LimitRule
CHECK_DEADLOCK FALSE
