------------------------------ MODULE TV_Cipher ------------------------------
(***************************************************************************)
(* Trace specification for the six ciphers (AEAD and SIV, 128/192/256).    *)
(*                                                                         *)
(* Events (one per call of the real library, logged at its return):        *)
(*   Reset     start of a new execution; clears the history variables      *)
(*   Enc       mode, k, n, ad, m, out (c||tag as written), clen            *)
(*   Dec       mode, k, n, ad, c, res, mlen, wrote, mout                   *)
(*             (mout = the clen-8 bytes of the plaintext buffer after the  *)
(*             call; wrote = the buffer differs from its pre-fill or       *)
(*             clen >= 8; for clen < 8: untouched = canary intact)         *)
(*   Packet    (spec-side only) fixes the "current packet": the spec       *)
(*             computes candidate plaintext and required tag once ...      *)
(*   DecTag    ... and every following DecTag event (same key, nonce, ad,  *)
(*             body, only the 8 tag bytes vary) is judged by equality with *)
(*             that tag: AEAD only, where the tag does not influence the   *)
(*             candidate plaintext.                                        *)
(*   CheckTag  direct call of tinyjambu_aead_check_tag                     *)
(*   DecBig    long packets, projected: res, nonzero count, equals_plain   *)
(*                                                                         *)
(* History rules (C01/C08 round trip, C09 determinism and misuse           *)
(* resistance) are evaluated over the implementation's own outputs kept in *)
(* the history variable "hist".                                            *)
(***************************************************************************)
EXTENDS TVBase, TJSiv

VARIABLES l,      \* next event
          pk,     \* current packet for DecTag events: [m, tag] computed by the specification
          hist    \* Enc events of the current execution: [mode, k, n, ad, m, out]

vars == <<l, pk, hist>>

NoPk == [m |-> <<>>, tag |-> <<>>, set |-> FALSE]

\* buffer contract observed by the driver: canaries around every buffer intact, inputs unmodified
MemOK(e) == e.canary = 1 /\ e.inmod = 0

SpecEnc(e) == IF e.mode = "siv" THEN SivEnc(e.k, e.n, e.ad, e.m) ELSE AeadEnc(e.k, e.n, e.ad, e.m)
SpecDec(e) == IF e.mode = "siv" THEN SivDec(e.k, e.n, e.ad, e.c) ELSE AeadDec(e.k, e.n, e.ad, e.c)

----------------------------------------------------------------------------
\* C09 relational rules against every earlier encryption of this execution
\* with the same mode, key and nonce.
Body(out) == SubSeq(out, 1, Len(out) - 8)
TagOf(out) == SubSeq(out, Len(out) - 7, Len(out))
MinOf(a, b) == IF a < b THEN a ELSE b
Prefix(s, n) == SubSeq(s, 1, n)

SameKN(h, e) == h.mode = e.mode /\ h.k = e.k /\ h.n = e.n

Deterministic(e) ==
    \A i \in 1..Len(hist) :
        (SameKN(hist[i], e) /\ hist[i].ad = e.ad /\ hist[i].m = e.m) => hist[i].out = e.out

\* SIV only: different (ad, m) under one (key, nonce) => different synthetic IV, and for
\* bodies of at least 8 common bytes the XOR of the bodies is not the XOR of the plaintexts
\* (coincidence probability 2^-64 per pair; see DESIGN.md 6.2)
MisuseResistant(e) ==
    \A i \in 1..Len(hist) :
        LET h == hist[i] IN
        (SameKN(h, e) /\ ~(h.ad = e.ad /\ h.m = e.m)) =>
            /\ TagOf(h.out) # TagOf(e.out)
            /\ LET n == MinOf(Len(h.m), Len(e.m)) IN
               n >= 8 => XorBytes(Prefix(Body(h.out), n), Body(e.out)) # XorBytes(Prefix(h.m, n), e.m)

\* AEAD control group: with a reused (key, nonce) and equal AD, the first block of the
\* keystream is reused, so the relation above MUST fail on the first 4 bytes.  Showing that
\* the trace contains such pairs proves the SIV rule is not vacuous.
AeadLeaks(e) ==
    \A i \in 1..Len(hist) :
        LET h == hist[i] IN
        (SameKN(h, e) /\ h.ad = e.ad /\ Len(h.m) >= 4 /\ Len(e.m) >= 4) =>
            XorBytes(Prefix(Body(h.out), 4), Body(e.out)) = XorBytes(Prefix(h.m, 4), e.m)

\* C01/C08 history rule: decrypting exactly what an earlier Enc produced, with the same
\* key, nonce and AD, returns 0 and that plaintext
RoundTrip(e) ==
    \A i \in 1..Len(hist) :
        LET h == hist[i] IN
        (SameKN(h, e) /\ h.ad = e.ad /\ h.out = e.c) =>
            e.res = 0 /\ e.mlen = Len(h.m) /\ e.mout = h.m

----------------------------------------------------------------------------
TReset ==
    /\ Tr[l].e = "Reset"
    /\ pk' = NoPk /\ hist' = <<>>

TEnc ==
    /\ Tr[l].e = "Enc"
    /\ LET e == Tr[l]
           x == SpecEnc(e)
       IN  /\ Judge(/\ e.out = x
                    /\ e.clen = Len(e.m) + 8
                    /\ Len(e.out) = e.clen, l, e, x)
           /\ Judge(MemOK(e), l, e, "buffer contract: canaries intact, inputs unmodified")
           /\ Judge(Deterministic(e), l, e, "determinism")
           /\ IF e.mode = "siv" THEN Judge(MisuseResistant(e), l, e, "misuse-resistance")
                                ELSE Judge(AeadLeaks(e), l, e, "aead-control-group")
           /\ hist' = IF e.keep = 1
                      THEN Append(hist, [mode |-> e.mode, k |-> e.k, n |-> e.n, ad |-> e.ad,
                                         m |-> e.m, out |-> e.out])
                      ELSE hist
    /\ pk' = pk

\* one decryption judged by the full specification
DecOK(e, x) ==
    IF x.wrote
    THEN e.res = x.res /\ (e.res = 0 => e.mlen = Len(e.c) - 8) /\ e.mout = x.m       \* *mlen is only promised on success
    ELSE e.res < 0 /\ e.untouched = 1        \* shorter than a tag: refused, nothing written

TDec ==
    /\ Tr[l].e = "Dec"
    /\ LET e == Tr[l]
           x == SpecDec(e)
       IN  /\ Judge(DecOK(e, x), l, e, x)
           /\ Judge(MemOK(e), l, e, "buffer contract: canaries intact, inputs unmodified")
           /\ Judge(Len(e.c) < 8 \/ RoundTrip(e), l, e, "round-trip")
    /\ UNCHANGED <<pk, hist>>

\* fix the current AEAD packet: candidate plaintext and required tag, from the specification
TPacket ==
    /\ Tr[l].e = "Packet"
    /\ LET e == Tr[l]
           o == AeadOpen(e.k, e.n, e.ad, e.body)
       IN  pk' = [m |-> o.m, tag |-> o.tag, set |-> TRUE]
    /\ hist' = hist

\* decrypt of the current packet's body with an arbitrary 8-byte tag
TDecTag ==
    /\ Tr[l].e = "DecTag"
    /\ LET e == Tr[l]
           x == CheckTag(pk.m, pk.tag, e.tag)
       IN  /\ Judge(pk.set /\ e.res = x.res /\ e.mout = x.m /\ (e.res = 0 => e.mlen = Len(pk.m)), l, e, <<x, pk.tag>>)
           /\ Judge(MemOK(e), l, e, "buffer contract: canaries intact, inputs unmodified")
    /\ UNCHANGED <<pk, hist>>

TCheckTag ==
    /\ Tr[l].e = "CheckTag"
    /\ LET e == Tr[l]
           x == CheckTag(e.pt, e.t1, e.t2)
       IN  Judge(e.res = x.res /\ e.ptout = x.m /\ e.canary = 1, l, e, x)
    /\ UNCHANGED <<pk, hist>>

(***************************************************************************)
(* Long packets, projected by the driver over the whole plaintext region:  *)
(*   nonzero = number of non-zero bytes in the clen-8 output bytes,        *)
(*   eqplain = 1 iff the region equals the plaintext that was encrypted,   *)
(*   tamper  = 0 for the untouched packet, > 0 for a tampered one.         *)
(* C04 is conditional on the implementation's own verdict; the verdict     *)
(* itself must be 0 for the untampered and -1 for the tampered packet.     *)
(***************************************************************************)
TDecBig ==
    /\ Tr[l].e = "DecBig"
    /\ LET e == Tr[l] IN
       /\ Judge(e.res \in {0, -1}, l, e, "result is 0 or -1")
       /\ Judge(e.res = -1 => e.nonzero = 0, l, e, "rejected => every plaintext byte zero")
       /\ Judge(e.res = 0 => e.eqplain = 1, l, e, "accepted => exactly the plaintext")
       /\ Judge((e.tamper = 0) <=> (e.res = 0), l, e, "accept iff untampered")
       /\ Judge(e.res = 0 => e.mlen = e.clen - 8, l, e, "accepted => mlen = clen - 8")
       /\ Judge(e.canary = 1, l, e, "canaries intact")
    /\ UNCHANGED <<pk, hist>>

(***************************************************************************)
(* Associated data of 4 GiB and more cannot be interpreted either.  What   *)
(* can be judged: under one key, nonce and message the tag is a MAC of the *)
(* whole associated data, so two different lengths of zero AD give         *)
(* different tags (2^-64), and a length below 64 KiB must equal the        *)
(* specification's value outright.  hist keeps the EncHuge events.         *)
(***************************************************************************)
THuge == /\ Tr[l].e = "EncHuge"
         /\ LET e == Tr[l] IN
            /\ Judge(\A i \in 1..Len(hist) :
                        (hist[i].mode = e.mode /\ hist[i].k = <<e.v>> /\ hist[i].ad # <<e.desc>>) => hist[i].out # e.out,
                     l, e, "associated data of different length must change the tag")
            /\ Judge(e.small < 0 \/ e.out = (IF e.mode = "siv" THEN SivEnc(Rep(e.v \div 8, 66), Rep(12, 36), Zeros(e.small), <<1, 2, 3, 4, 5>>)
                                              ELSE AeadEnc(Rep(e.v \div 8, 66), Rep(12, 36), Zeros(e.small), <<1, 2, 3, 4, 5>>)),
                     l, e, "specification value for the short associated data")
            /\ hist' = Append(hist, [mode |-> e.mode, k |-> <<e.v>>, n |-> <<>>, ad |-> <<e.desc>>, m |-> <<>>, out |-> e.out])
         /\ pk' = pk

\* events of the other families (system-level traces): stuttering steps for this specification
Own == {"Reset", "Enc", "Dec", "Packet", "DecTag", "CheckTag", "DecBig", "EncHuge"}
TForeign == Tr[l].e \notin Own \cup {"Fault", "San", "Hang", "Garbled"} /\ UNCHANGED <<pk, hist>>

Init == l = 1 /\ pk = NoPk /\ hist = <<>> /\ InitRegs

Next ==
    /\ l <= Len(Tr)
    /\ l' = l + 1
    /\ (TReset \/ TEnc \/ TDec \/ TPacket \/ TDecTag \/ TCheckTag \/ TDecBig \/ THuge \/ TForeign)

Spec == Init /\ [][Next]_vars

TraceAccepted == Accepted(Len(Tr))
=============================================================================
