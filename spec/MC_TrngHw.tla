------------------------------ MODULE MC_TrngHw ------------------------------
(***************************************************************************)
(* Every behaviour of the back-end acceptors of TJTrngHw at reduced scale  *)
(* (Words words per request, Budget polls per word), with the device free  *)
(* to answer anything at every access: the contract of tinyjambu-trng.h    *)
(* holds in every reachable state, every state has a successor (the driver *)
(* is never stuck waiting: CHECK_DEADLOCK), and under fairness every call  *)
(* returns (Returns).                                                      *)
(***************************************************************************)
EXTENDS TJTrngHw, TLC

VARIABLES s
Vals == {<<1, 0, 0, 0>>, <<2, 0, 0, 0>>}
Outs(st) == {st.out, Zeros(4 * Words), Rep(<<1, 0, 0, 0>>, Words)}

Events(st) ==
    {[e |-> "Call"]}
    \cup {[e |-> "Dev", op |-> "pmc_enable_periph_clk", arg |-> 41]}
    \cup {[e |-> "Dev", op |-> "W", reg |-> r, v |-> v] : r \in {"CR", "IDR"}, v \in {DueKey, <<1, 0, 0, 0>>}}
    \cup {[e |-> "Dev", op |-> "R", reg |-> r, v |-> v] : r \in {"ISR", "ODATA"}, v \in Vals}
    \cup {[e |-> "Dev", op |-> "hal", handle |-> 1, st |-> x, v |-> v] : x \in {0, 1, 3}, v \in Vals}
    \cup {[e |-> "Dev", op |-> "esp_random", v |-> v] : v \in Vals}
    \cup {[e |-> "Dev", op |-> "acquire", container |-> 0, provider |-> 0, type |-> 1, verify |-> 1, silent |-> 1, ok |-> k] : k \in {0, 1}}
    \cup {[e |-> "Dev", op |-> "gen", handle |-> 1, len |-> 4 * Words, ok |-> k, v |-> Rep(<<2, 0, 0, 0>>, Words)] : k \in {0, 1}}
    \cup {[e |-> "Dev", op |-> "release", handle |-> 1, flags |-> 0]}
    \cup {[e |-> "Ret", ok |-> k, out |-> o, canary |-> 1, open |-> 0, reg |-> <<1, 0, 0, 0>>] : k \in {0, 1}, o \in Outs(st)}

Init == s \in {Fresh(be) : be \in Backends}
Next == \E ev \in Events(s) : ~Accept(s, ev).bad /\ s' = Accept(s, ev)
Spec == Init /\ [][Next]_s
FairSpec == Spec /\ WF_s(Next)

Contract == ContractOK(s)
NeverBad == ~s.bad
\* exactly one result is acceptable at the return point: the acceptor is deterministic about what the caller sees
OneResult == s.pc = "ret" => Cardinality({ev \in Events(s) : ev.e = "Ret" /\ ~Accept(s, ev).bad}) = 1
Returns == (s.pc # "idle") ~> (s.pc = "idle")
ASSUME SelectTotal
=============================================================================
