SPECIFICATION Spec
CONSTANTS NObj = 2  MaxTotal = 50  MaxLen = 50  SimDepth = 1000
VIEW view
INVARIANT StreamingEqOneShot
INVARIANT BufBound
INVARIANT FreeErases
PROPERTY InitResets
PROPERTY Isolation
CHECK_DEADLOCK FALSE
