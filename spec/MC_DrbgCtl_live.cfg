SPECIFICATION FairSpec
CONSTANTS Sizes = {0, 33, 100}  Limits = {0, 64}  FeedLens = {1}
          MaxCounter = 12  MaxOps = 4  SimDepth = 1000
VIEW view
PROPERTY GenerateReturns
CHECK_DEADLOCK FALSE
