SPECIFICATION Spec
CONSTANTS NObj = 2  MaxOps = 4  SimDepth = 1000
VIEW view
PROPERTY Isolation
PROPERTY UsedWhileLive
CHECK_DEADLOCK FALSE
