------------------------------- MODULE TV_Mode -------------------------------
(***************************************************************************)
(* Trace specification binding the mode machines of TJMode to the code.    *)
(*                                                                         *)
(* harness/modedrive.c is linked with --wrap=tinyjambu_permutation_N, so    *)
(* every call the library's AEAD, SIV and hash code makes to the keyed      *)
(* permutation is logged where it happens, and ANSWERED by the harness:     *)
(* the real permutation, or a stand-in that makes rare coincidences certain.*)
(*                                                                         *)
(* Events:                                                                 *)
(*   Call   op, v, k, n, ad, x       the public call begins                 *)
(*   Perm   v, r, in, key, out, kmod one call of the permutation: input     *)
(*          state, key words as passed, rounds, the answer, and whether the *)
(*          real permutation modified the key words                         *)
(*   Ret    res, len, out, untouched the public call returned               *)
(*                                                                         *)
(* TPerm is TJMode's Answer action with the logged answer bound in: the     *)
(* call must be the one the machine is waiting for (no call when the        *)
(* program is exhausted), with exactly the input state, rounds and key the  *)
(* machine predicts.  TRet requires the program to be exhausted and the     *)
(* outputs to be the machine's verdict.  Calls answered by the real         *)
(* permutation are in addition judged by the functional specification      *)
(* ("functional" flags): this tells a tree that computes the right values   *)
(* with a different call structure (seam not applicable, fam_mode.py) from  *)
(* one that computes wrong values.                                          *)
(***************************************************************************)
EXTENDS TVBase, TJModeFn

VARIABLES l, q, live
vars == <<l, q, live>>

Idle == [c |-> [op |-> "none", v |-> 128, k |-> <<>>, n |-> <<>>, ad |-> <<>>, x |-> <<>>, pm |-> 1], stage |-> 2,
         S |-> Z16, R |-> Z16, L2 |-> Z16, o |-> <<>>, t |-> <<>>, prog |-> <<>>]

TReset == Tr[l].e = "Reset" /\ q' = Idle /\ live' = FALSE

TCall ==
    /\ Tr[l].e = "Call"
    /\ LET e == Tr[l] IN
       /\ Judge(~live, l, e, "a call begins while another is in progress")
       /\ q' = Start([op |-> e.op, v |-> e.v, k |-> e.k, n |-> e.n, ad |-> e.ad, x |-> e.x, pm |-> e.pm % 100])
    /\ live' = TRUE

TPerm ==
    /\ Tr[l].e = "Perm"
    /\ LET e == Tr[l] IN
       IF live /\ ~Done(q)
       THEN /\ Judge(e.in = NextIn(q), l, e, [what |-> "input state of this permutation call", want |-> NextIn(q)])
            /\ Judge(e.r = NextRounds(q), l, e, [what |-> "rounds", want |-> NextRounds(q)])
            /\ Judge(e.key = NextKey(q), l, e, [what |-> "key words (pre-inverted)", want |-> NextKey(q)])
            /\ Judge(e.v = (IF q.c.op = "hash" THEN 256 ELSE q.c.v), l, e, "permutation of the wrong key size")
            /\ Judge(e.kmod = 0, l, e, "the permutation modified the key words")
            /\ q' = Answer(q, e.out)
       ELSE /\ Flag(l, e, "permutation call that the mode does not make (program exhausted or no call in progress)")
            /\ q' = q
    /\ live' = live

TRet ==
    /\ Tr[l].e = "Ret"
    /\ LET e == Tr[l] IN
       /\ Judge(live /\ Done(q), l, e, [what |-> "return before the mode's permutation calls were all made",
                                          missing |-> Len(q.prog)])
       /\ IF Done(q)
          THEN LET x == Verdict(q) IN
               IF x.wrote
               THEN Judge(/\ e.res = x.res
                          /\ e.out = x.out
                          /\ (e.res = 0 => e.len = Len(x.out)), l, e, x)
               ELSE Judge(e.res < 0 /\ e.untouched = 1, l, e, x)
          ELSE TRUE
       \* answered by the real permutation throughout: the public result is also the functional specification's value
       /\ IF live /\ q.c.pm = 0
          THEN LET f == Functional(q.c) IN
               Judge(IF f.wrote THEN e.res = f.res /\ e.out = f.out ELSE e.res < 0 /\ e.untouched = 1,
                     l, e, [what |-> "functional", want |-> f])
          ELSE TRUE
    /\ q' = Idle /\ live' = FALSE

Init == l = 1 /\ q = Idle /\ live = FALSE /\ InitRegs

Next ==
    /\ l <= Len(Tr)
    /\ l' = l + 1
    /\ (TReset \/ TCall \/ TPerm \/ TRet)

Spec == Init /\ [][Next]_vars

TraceAccepted == Accepted(Len(Tr))
=============================================================================
