----------------------------- MODULE TV_TrngNone -----------------------------
(***************************************************************************)
(* The entropy source of last resort (src/random/tinyjambu-trng-none.c),   *)
(* used on platforms where the library knows no random number source:      *)
(*                                                                         *)
(*   if the application declares its escape hatch good and the hatch       *)
(*   delivers, the seed is the hatch's 32 bytes and the result is 1;       *)
(*   otherwise the seed is TinyJAMBU-Hash of the clock readings the        *)
(*   platform offers (their in-memory images, in the order read) and the   *)
(*   result is 0 - the source never claims entropy it does not have, and   *)
(*   the seed buffer is fully defined either way (C18's "reports failure,  *)
(*   leaves a fully defined seed buffer ... PRNG initialisation reports    *)
(*   'not seeded' while remaining usable").                                *)
(***************************************************************************)
EXTENDS TVBase, TJHash

VARIABLES l
vars == <<l>>

Flat(ts) == FoldLeft(LAMBDA a, b : a \o b, <<>>, ts)

TNone == /\ Tr[l].e = "NoneTrng"
         /\ LET e == Tr[l] IN
            IF e.good = 1 /\ e.ok = 1
            THEN Judge(e.res = 1 /\ e.out = e.hatch /\ e.guard = 1, l, e, [res |-> 1, out |-> e.hatch])
            ELSE LET x == Hash(Flat(e.times)) IN
                 Judge(e.res = 0 /\ e.out = x /\ e.guard = 1, l, e, [res |-> 0, out |-> x])

Init == l = 1 /\ InitRegs
Next == l <= Len(Tr) /\ l' = l + 1 /\ TNone
Spec == Init /\ [][Next]_vars
TraceAccepted == Accepted(Len(Tr))
=============================================================================
