------------------------------- MODULE MC_Trng -------------------------------
(***************************************************************************)
(* Model of the system entropy source under OS faults (C18).  The          *)
(* environment chooses the outcome of every OS call; transient failures    *)
(* are bounded by MaxTransient in the safety configuration.  Safety: the   *)
(* machine of TJTrng satisfies the property's clauses in every reachable   *)
(* state.  Liveness (FairSpec): if the environment eventually stops        *)
(* failing transiently the call returns.                                   *)
(***************************************************************************)
EXTENDS TJTrng, TLC, Json

CONSTANTS MaxTransient, SimDepth

VARIABLES s, ntrans, sawperm, sawok, hist
vars == <<s, ntrans, sawperm, sawok, hist>>

Init == /\ \E v \in Variants : s = TrngInit(v)
        /\ ntrans = 0 /\ sawperm = FALSE /\ sawok = FALSE /\ hist = <<>>

OsCall(o) ==
    /\ s.pc # "done"
    /\ o \in Outcomes(s)
    /\ (o \in Transient \cup {"SHORT", "PARTIAL"}) => ntrans < MaxTransient
    /\ s' = TrngStep(s, o)
    /\ ntrans' = IF o \in Transient \cup {"SHORT", "PARTIAL"} THEN ntrans + 1 ELSE ntrans
    /\ sawperm' = (sawperm \/ o \in {"PERM", "OPENFAIL"})
    /\ sawok' = (sawok \/ o = "OK")
    /\ hist' = Append(hist, o)

Next == \E o \in {"OK", "EINTR", "EAGAIN", "PERM", "SHORT", "PARTIAL", "FD", "OPENFAIL", "CLOSED"} : OsCall(o)
Spec == Init /\ [][Next]_vars

\* fairness: the machine keeps calling, and the environment does not fail transiently forever
Progress == \E o \in {"OK", "PERM", "FD", "OPENFAIL", "CLOSED"} : OsCall(o)
FairSpec == Spec /\ SF_vars(Progress)

Done == s.pc = "done"

\* success iff an OK arrived before any permanent error; then the buffer holds the OS bytes
SuccessIff == Done => ((s.res = 1) <=> (sawok /\ ~sawperm)) /\ (s.res = 1 => s.buf = "os")
\* a failure leaves a fully defined, zeroed seed buffer
FailureZeroes == (Done /\ s.res = 0) => s.buf = "zero"
\* no descriptor is leaked
NoFdLeak == Done => s.fds = 0
\* nothing is called after the verdict: ok and perm are mutually exclusive
OneVerdict == ~(sawok /\ sawperm)
\* liveness: the call returns
Returns == <>Done

PlanOut == ~Done \/ PrintT(<<"PLAN", ToJson([variant |-> s.variant, seq |-> hist])>>)
=============================================================================
