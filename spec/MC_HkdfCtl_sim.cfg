SPECIFICATION Spec
CONSTANTS Lens = {0, 1, 2, 5, 17, 31, 32, 33, 64, 65, 100, 255}  MaxTotal = 100000  SimDepth = 10  B = 32  NBlocks = 255
INVARIANT ServesRfcStream
INVARIANT PlanOut
CHECK_DEADLOCK FALSE
