------------------------------ MODULE TV_TrngHw ------------------------------
(***************************************************************************)
(* Trace specification for the hardware / non-Unix entropy back ends: the  *)
(* device accesses and results logged by harness/hwtrng.c (the back end's  *)
(* own source compiled against stand-in platform headers) must be a        *)
(* behaviour of the acceptor TJTrngHw at real scale (8 words, 100 polls),  *)
(* and the contract of tinyjambu-trng.h must hold in every state reached.  *)
(* A Reset event names the back end and starts a new process (the Due's    *)
(* once-only initialisation is per process).                               *)
(***************************************************************************)
EXTENDS TVBase, TJTrngHw

VARIABLES l, s
vars == <<l, s>>

Step ==
    LET e == Tr[l] IN
    CASE e.e = "Reset" -> s' = Fresh(e.backend)
      [] e.e = "End"   -> s' = s
      [] e.e = "Select" ->
           LET S == {e.macros[i] : i \in 1..Len(e.macros)}
               D == {e.defined[i] : i \in 1..Len(e.defined)}
               x == Select(S)
               h == IF x.handle = "" THEN "" ELSE IF e.family = "STM32MP157Axx" THEN "hrng1" ELSE "hrng"   \* the MP1 has two
           IN  /\ Judge(e.status = 0 /\ D = x.defined /\ (h = "" \/ e.handle = h), l, e, [defined |-> x.defined, handle |-> h])
               /\ s' = s
      [] OTHER ->
           LET t == Accept(s, e) IN
           /\ Judge(s.bad \/ ~t.bad, l, e, [state |-> s.pc, word |-> s.w, polls_left |-> s.cnt, expected |-> "another event here"])
           /\ Judge(t.bad \/ ContractOK(t), l, e, "the contract of tinyjambu-trng.h is broken in the state after this event")
           /\ s' = t

Init == l = 1 /\ InitRegs /\ s = Fresh("due")
Next == l <= Len(Tr) /\ l' = l + 1 /\ Step
Spec == Init /\ [][Next]_vars
TraceAccepted == Accepted(Len(Tr))
=============================================================================
