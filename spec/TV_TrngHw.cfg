CONSTANTS Words = 8
          Budget = 100
SPECIFICATION Spec
POSTCONDITION TraceAccepted
CHECK_DEADLOCK FALSE
