#!/bin/bash
cd /tmp/vdev
run() { d=$1; r=$2; shift 2; cd /tmp/wt-mut && git checkout -q -- . && git apply /verif/seeded/$d/$r.diff || { echo "## $d/$r patch failed"; return; }; cd /tmp/vdev; for c in "$@"; do s=$(date +%s); out=$(TJ_REPO=/tmp/wt-mut tools/check $c quick 2>&1); rc=$?; echo "## $d/$r vs $c rc=$rc ($(( $(date +%s)-s ))s)"; [ $rc -ne 0 ] && echo "$out" | grep -E "violation:|MACHINERY" | head -2 | cut -c1-300; done; git -C /tmp/wt-mut checkout -q -- .; }
run benign-B2 R1 C10 C11 C07; run benign-B6 R1 C10 C11 C07; run benign-B2 R2 C12 C07; run benign-B2 R3 C13; run benign-B2 R4 C14 C06; run benign-B4 R4 C10 C12 C07
run benign-B3 R1 C15 C17 C07; run benign-B3 R2 C15 C16 C17; run benign-B6 R3 C15 C17 C07
run benign-B1 R1 C02 C09; run benign-B1 R2 C03; run benign-B1 R3 C01 C08; run benign-B1 R4 C02 C09; run benign-B6 R2 C01 C09; run benign-B4 R1 C02; run benign-B4 R2 C02 C09
echo BENIGNDONE
