/* Pre-included (-include) when building tinyjambu-hash.c in the "portable byte order" configuration: the system
 * headers are pulled in first with the real predefined macros, then the macros tinyjambu-util.h uses to detect a
 * little-endian CPU are hidden, so that the code path for hosts of unknown/big endianness is compiled.  That path
 * uses byte-wise loads and is correct on any host, so all results must be unchanged. */
#include <stddef.h>
#include <stdint.h>
#include <string.h>
#include <stdlib.h>
#undef __x86_64__
#undef __x86_64
#undef __i386__
#undef __i386
#undef __LITTLE_ENDIAN__
#undef __BYTE_ORDER__
#define __BYTE_ORDER__ 4321
