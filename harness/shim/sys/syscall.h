/* shim used only to build the /dev/urandom variant of the system entropy source on a host that has
 * SYS_getrandom: the real header, minus that one number */
#include_next <sys/syscall.h>
#undef SYS_getrandom
