/*
 * trngdrive - runs tinyjambu_trng_generate() (src/random/tinyjambu-trng-dev-random.c, compiled from /repo's
 * working tree in one of four build variants) against a scripted operating system.
 *
 * The OS entry points the source may use - getrandom, getentropy, syscall(SYS_getrandom), open/read/close of
 * /dev/urandom - are interposed at link time (-Wl,--wrap=...).  Each plan line is one call of the source:
 *     seq id=<id> prefill=<byte> [denyopen=0|1] items=EINTR,EAGAIN,SHORT:5,OK,PERM:5,OPENFAIL:2,...
 *       (denyopen=1: descriptor exhaustion - any open() other than the scripted /dev/urandom fails with EMFILE)
 * Items are consumed by successive OS calls; when they run out the OS succeeds.  Every OS call and the final
 * result are logged as ndjson:  {"e":"Os",...}* {"e":"Trng",...}
 */
#define _GNU_SOURCE
#include <stdio.h>
#include <stdlib.h>
#include <string.h>
#include <stdarg.h>
#include <errno.h>
#include <unistd.h>
#include <fcntl.h>
#include <signal.h>
#include <sys/types.h>
#include <sys/syscall.h>

int tinyjambu_trng_generate(unsigned char *out);

#define MAXITEMS 200000
static char **items; static int nitems, pos;
static char cur_id[96];
static long ncalls_total;
static int our_fd = -1, fds_open;
static unsigned char osbytes[32];
static int active;
static size_t got;      /* bytes of the 32-byte OS stream already handed out by short reads (an implementation may either
                           re-read the whole seed or ask only for the remainder; both are served consistently) */

static void emit_os(const char *fn, const char *outcome, long ret, long len)
{
    printf("{\"e\":\"Os\",\"id\":\"%s\",\"fn\":\"%s\",\"o\":\"%s\",\"ret\":%ld,\"len\":%ld}\n", cur_id, fn, outcome, ret, len);
    if (++ncalls_total > 150000) {
        printf("{\"e\":\"Hang\",\"id\":\"%s\"}\n", cur_id); fflush(stdout); _exit(0);
    }
}
static const char *next_item(void) { return pos < nitems ? items[pos++] : "OK"; }
static int perm_errno(const char *it) { const char *c = strchr(it, ':'); int e = c ? atoi(c + 1) : EIO; return e ? e : EIO; }

/* the random-number call family: returns like getrandom (bytes or -1) */
static long os_random(const char *fn, void *buf, size_t len, int entropy_style)
{
    const char *it = next_item();
    if (!strcmp(it, "OK")) {
        if (len >= 32 || got + len > 32) got = 0;
        memcpy(buf, osbytes + got, len < 32 ? len : 32);
        emit_os(fn, "OK", entropy_style ? 0 : (long)len, (long)len);
        return entropy_style ? 0 : (long)len;
    }
    if (!strncmp(it, "PARTIAL", 7)) {
        /* getrandom() may deliver fewer bytes than asked (it is then not an error); getentropy() never does */
        const char *c = strchr(it, ':'); long k = c ? atol(c + 1) : 16;
        if (entropy_style || k < 1 || (size_t)k >= len) {
            if (len >= 32 || got + len > 32) got = 0;
            memcpy(buf, osbytes + got, len < 32 ? len : 32);
            emit_os(fn, "OK", entropy_style ? 0 : (long)len, (long)len);
            return entropy_style ? 0 : (long)len;
        }
        if (len >= 32 || got + len > 32) got = 0;
        memcpy(buf, osbytes + got, (size_t)k); got += (size_t)k;
        emit_os(fn, "PARTIAL", k, (long)len);
        return k;
    }
    if (!strcmp(it, "EINTR")) { emit_os(fn, "EINTR", -1, (long)len); errno = EINTR; return -1; }
    if (!strcmp(it, "EAGAIN")) { emit_os(fn, "EAGAIN", -1, (long)len); errno = EAGAIN; return -1; }
    /* a permanent error may have scribbled into the buffer before failing */
    memset(buf, 0x5D, len / 2);
    emit_os(fn, "PERM", -1, (long)len); errno = perm_errno(it); return -1;
}

ssize_t __wrap_getrandom(void *buf, size_t len, unsigned flags)
{ (void)flags; return active ? os_random("getrandom", buf, len, 0) : (errno = ENOSYS, -1); }
int __wrap_getentropy(void *buf, size_t len)
{ return active ? (int)os_random("getentropy", buf, len, 1) : (errno = ENOSYS, -1); }
long __real_syscall(long number, ...);
long __wrap_syscall(long number, ...)
{
    va_list ap; long a[6];
    va_start(ap, number); for (int i = 0; i < 6; i++) a[i] = va_arg(ap, long); va_end(ap);
    if (active && number == SYS_getrandom) return os_random("syscall", (void *)a[0], (size_t)a[1], 0);
    return __real_syscall(number, a[0], a[1], a[2], a[3], a[4], a[5]);
}
/* Whatever clock the source might consult jumps forward by ten seconds at every reading while a request is active:
 * the result of a request must not depend on how long the operating system took to answer. */
#include <sys/time.h>
#include <time.h>
static long fake_now = 1700000000;
int __real_gettimeofday(struct timeval *tv, void *tz);
int __wrap_gettimeofday(struct timeval *tv, void *tz)
{
    if (!active) return __real_gettimeofday(tv, tz);
    fake_now += 10; if (tv) { tv->tv_sec = fake_now; tv->tv_usec = 0; } return 0;
}
int __real_clock_gettime(clockid_t id, struct timespec *ts);
int __wrap_clock_gettime(clockid_t id, struct timespec *ts)
{
    if (!active) return __real_clock_gettime(id, ts);
    fake_now += 10; if (ts) { ts->tv_sec = fake_now; ts->tv_nsec = 0; } return 0;
}
time_t __real_time(time_t *t);
time_t __wrap_time(time_t *t)
{
    if (!active) return __real_time(t);
    fake_now += 10; if (t) *t = fake_now; return fake_now;
}
static int deny_other_open;     /* denyopen=1: the process is out of descriptors - every open() the script does not serve fails with EMFILE */
int __real_open(const char *path, int flags, ...);
int __wrap_open(const char *path, int flags, ...)
{
    va_list ap; int mode; va_start(ap, flags); mode = va_arg(ap, int); va_end(ap);
    if (active && path && !strcmp(path, "/dev/urandom")) {
        const char *it = next_item();
        if (!strncmp(it, "OPENFAIL", 8)) { emit_os("open", "OPENFAIL", -1, 0); errno = perm_errno(it); if (errno == EIO) errno = ENOENT; return -1; }
        if (strcmp(it, "FD")) pos--;            /* anything else: the open succeeds and the item is for read() */
        our_fd = __real_open("/dev/null", O_RDONLY);
        fds_open++;
        emit_os("open", "FD", our_fd, 0);
        return our_fd;
    }
    if (active && deny_other_open) { errno = EMFILE; return -1; }
    return __real_open(path, flags, mode);
}
ssize_t __real_read(int fd, void *buf, size_t len);
ssize_t __wrap_read(int fd, void *buf, size_t len)
{
    if (active && fd == our_fd && our_fd >= 0) {
        const char *it = next_item();
        if (!strncmp(it, "SHORT", 5)) {
            const char *c = strchr(it, ':'); long k = c ? atol(c + 1) : 5;
            if (k < 1) k = 1; if (k > 31) k = 31;
            if (len >= 32 || got + len > 32) got = 0;
            if ((size_t)k < len) {
                memcpy(buf, osbytes + got, (size_t)k); got += (size_t)k;
                emit_os("read", "SHORT", k, (long)len); return k;
            }
            /* the request is not longer than what this short read would deliver: it is served in full */
            memcpy(buf, osbytes + got, len); got += len;
            emit_os("read", "OK", (long)len, (long)len); return (ssize_t)len;
        }
        long r = os_random("read", buf, len, 0);
        return r;
    }
    return __real_read(fd, buf, len);
}
int __real_close(int fd);
int __wrap_close(int fd)
{
    if (active && fd == our_fd && our_fd >= 0) {
        if (pos < nitems && !strcmp(items[pos], "CLOSED")) pos++;
        emit_os("close", "CLOSED", 0, 0); fds_open--; our_fd = -1; return __real_close(fd);
    }
    return __real_close(fd);
}

static int count_fds(void)
{
    int n = 0;
    for (int fd = 0; fd < 256; fd++) if (fcntl(fd, F_GETFD) != -1) n++;
    return n;
}

static void on_fault(int sig)
{
    char b[160]; int n = snprintf(b, sizeof(b), "{\"e\":\"Fault\",\"id\":\"%s\",\"op\":\"trng\",\"sig\":%d,\"buf\":\"none\",\"rel\":0}\n", cur_id, sig);
    fflush(stdout); if (write(1, b, (size_t)n) < 0) { } _exit(3);
}

int main(void)
{
    static char line[1 << 22];
    signal(SIGSEGV, on_fault); signal(SIGBUS, on_fault); signal(SIGABRT, on_fault);
    items = malloc(sizeof(char *) * MAXITEMS);
    while (fgets(line, sizeof(line), stdin)) {
        size_t L = strlen(line);
        while (L && (line[L-1] == '\n' || line[L-1] == '\r')) line[--L] = 0;
        if (strncmp(line, "seq ", 4)) continue;
        int prefill = 0xA5, has_rep = 0, entry_errno = 0; char *its = NULL;
        deny_other_open = 0;
        snprintf(cur_id, sizeof(cur_id), "?");
        for (char *sv = NULL, *tok = strtok_r(line + 4, " ", &sv); tok; tok = strtok_r(NULL, " ", &sv)) {
            if (!strncmp(tok, "id=", 3)) snprintf(cur_id, sizeof(cur_id), "%s", tok + 3);
            else if (!strncmp(tok, "prefill=", 8)) prefill = (int)strtol(tok + 8, NULL, 0);
            else if (!strncmp(tok, "errno=", 6)) entry_errno = (int)strtol(tok + 6, NULL, 0);
            else if (!strncmp(tok, "denyopen=", 9)) deny_other_open = (int)strtol(tok + 9, NULL, 0);
            else if (!strncmp(tok, "items=", 6)) its = tok + 6;
            else if (!strncmp(tok, "rep=", 4)) { /* rep=N:ITEM expands to N copies (long transient runs) */
                long n = atol(tok + 4); char *c = strchr(tok, ':');
                has_rep = 1; nitems = 0; for (long i = 0; i < n && nitems < MAXITEMS - 8; i++) items[nitems++] = c + 1;
            }
        }
        if (its) { if (!has_rep) nitems = 0;
            for (char *sv = NULL, *t = strtok_r(its, ",", &sv); t && nitems < MAXITEMS; t = strtok_r(NULL, ",", &sv)) items[nitems++] = t; }
        pos = 0; ncalls_total = 0; got = 0;
        for (int i = 0; i < 32; i++) osbytes[i] = (unsigned char)(0x30 + i + (cur_id[0] & 7));
        unsigned char buf[32 + 16];
        memset(buf, prefill, sizeof(buf));
        int before = count_fds();
        active = 1;
        errno = entry_errno;         /* whatever an unrelated earlier call left behind */
        int res = tinyjambu_trng_generate(buf + 8);
        active = 0;
        int after = count_fds();
        int isos = !memcmp(buf + 8, osbytes, 32), nz = 0, guard = 1;
        for (int i = 0; i < 32; i++) nz += buf[8 + i] != 0;
        for (int i = 0; i < 8; i++) guard &= (buf[i] == (unsigned char)prefill) && (buf[40 + i] == (unsigned char)prefill);
        printf("{\"e\":\"Trng\",\"id\":\"%s\",\"res\":%d,\"isos\":%d,\"nonzero\":%d,\"guard\":%d,\"fdleak\":%d,\"unused\":%d,\"out\":[",
               cur_id, res, isos, nz, guard, after - before, nitems - pos);
        for (int i = 0; i < 32; i++) printf(i ? ",%u" : "%u", buf[8 + i]);
        printf("]}\n");
        fflush(stdout);
        nitems = 0;
    }
    printf("{\"e\":\"End\",\"id\":\"?\"}\n");
    return 0;
}
