/*
 * katshim - records every library call the repository's own test programs (test/kat/kat, kat-gen) make, so that
 * the existing tests' executions can be validated by TLC against the TLA+ specification with assertions that are
 * stronger than the tests' own (every call, every output byte, the rejected-plaintext buffer, ...).
 * Linked with -Wl,--wrap=<entry point> for the entry points selected by KATSHIM_CIPHERS / KATSHIM_HASH /
 * KATSHIM_HMAC; events go to the file named by $TJ_KATLOG as ndjson in the format of harness/tjdrive.c.
 */
#include <stdio.h>
#include <stdlib.h>
#include <string.h>
#include "TinyJAMBU.h"

static FILE *logf;
static long evno;
static FILE *L(void)
{
    if (!logf) { const char *p = getenv("TJ_KATLOG"); logf = fopen(p ? p : "/dev/null", "w"); }
    return logf;
}
static void jb(const char *k, const unsigned char *p, size_t n)
{
    fprintf(L(), ",\"%s\":[", k);
    for (size_t i = 0; i < n; i++) fprintf(L(), i ? ",%u" : "%u", p[i]);
    fprintf(L(), "]");
}
static unsigned char *dup(const unsigned char *p, size_t n) { unsigned char *c = malloc(n + 1); if (n && p) memcpy(c, p, n); return c; }

#define CIPHER(V, MODE, KLEN) \
void __real_tinyjambu_##V##_##MODE##_encrypt(unsigned char *, size_t *, const unsigned char *, size_t, const unsigned char *, size_t, const unsigned char *, const unsigned char *); \
int __real_tinyjambu_##V##_##MODE##_decrypt(unsigned char *, size_t *, const unsigned char *, size_t, const unsigned char *, size_t, const unsigned char *, const unsigned char *); \
void __wrap_tinyjambu_##V##_##MODE##_encrypt(unsigned char *c, size_t *clen, const unsigned char *m, size_t mlen, const unsigned char *ad, size_t adlen, const unsigned char *npub, const unsigned char *k) \
{ \
    unsigned char *mc = dup(m, mlen); \
    __real_tinyjambu_##V##_##MODE##_encrypt(c, clen, m, mlen, ad, adlen, npub, k); \
    fprintf(L(), "{\"e\":\"Enc\",\"id\":\"kat%ld\",\"mode\":\"%s\",\"v\":%d", ++evno, #MODE, V); \
    jb("k", k, KLEN); jb("n", npub, 12); jb("ad", ad, adlen); jb("m", mc, mlen); jb("out", c, mlen + 8); \
    fprintf(L(), ",\"clen\":%ld,\"keep\":0,\"alias\":%d,\"inmod\":0,\"canary\":1}\n", (long)*clen, c == m); free(mc); \
} \
int __wrap_tinyjambu_##V##_##MODE##_decrypt(unsigned char *m, size_t *mlen, const unsigned char *c, size_t clen, const unsigned char *ad, size_t adlen, const unsigned char *npub, const unsigned char *k) \
{ \
    unsigned char *cc = dup(c, clen); size_t ml = (size_t)-1; \
    int res = __real_tinyjambu_##V##_##MODE##_decrypt(m, &ml, c, clen, ad, adlen, npub, k); \
    if (ml != (size_t)-1 && mlen) *mlen = ml; \
    fprintf(L(), "{\"e\":\"Dec\",\"id\":\"kat%ld\",\"mode\":\"%s\",\"v\":%d", ++evno, #MODE, V); \
    jb("k", k, KLEN); jb("n", npub, 12); jb("ad", ad, adlen); jb("c", cc, clen); \
    fprintf(L(), ",\"res\":%d,\"mlen\":%ld", res, ml == (size_t)-1 ? -1L : (long)ml); \
    jb("mout", m, clen >= 8 ? clen - 8 : 0); \
    fprintf(L(), ",\"untouched\":1,\"alias\":%d,\"inmod\":0,\"canary\":1}\n", m == c); free(cc); \
    return res; \
}
#ifdef KATSHIM_CIPHERS
CIPHER(128, aead, 16) CIPHER(192, aead, 24) CIPHER(256, aead, 32)
CIPHER(128, siv, 16) CIPHER(192, siv, 24) CIPHER(256, siv, 32)
#endif

/* state objects are numbered by address in order of first appearance (at most 8 at a time) */
static void *objs[8];
static int objid(void *p)
{
    for (int i = 0; i < 8; i++) if (objs[i] == p) return i;
    for (int i = 0; i < 8; i++) if (!objs[i]) { objs[i] = p; return i; }
    objs[0] = p; return 0;
}

#ifdef KATSHIM_HASH
void __real_tinyjambu_hash(unsigned char *, const unsigned char *, size_t);
void __real_tinyjambu_hash_init(tinyjambu_hash_state_t *);
void __real_tinyjambu_hash_update(tinyjambu_hash_state_t *, const unsigned char *, size_t);
void __real_tinyjambu_hash_finalize(tinyjambu_hash_state_t *, unsigned char *);
static int nested;
void __wrap_tinyjambu_hash(unsigned char *out, const unsigned char *in, size_t inlen)
{
    nested++; __real_tinyjambu_hash(out, in, inlen); nested--;
    fprintf(L(), "{\"e\":\"Hash\",\"id\":\"kat%ld\",\"learn\":0", ++evno); jb("m", in, inlen); jb("out", out, 32);
    fprintf(L(), ",\"inmod\":0,\"canary\":1}\n");
}
void __wrap_tinyjambu_hash_init(tinyjambu_hash_state_t *s)
{
    __real_tinyjambu_hash_init(s);
    if (!nested) fprintf(L(), "{\"e\":\"HInit\",\"id\":\"kat%ld\",\"obj\":%d,\"canary\":1}\n", ++evno, objid(s));
}
void __wrap_tinyjambu_hash_update(tinyjambu_hash_state_t *s, const unsigned char *in, size_t n)
{
    __real_tinyjambu_hash_update(s, in, n);
    if (!nested) { fprintf(L(), "{\"e\":\"HUpdate\",\"id\":\"kat%ld\",\"obj\":%d,\"canary\":1,\"op\":0", ++evno, objid(s)); jb("d", in, n);
                   fprintf(L(), ",\"null\":0,\"inmod\":0,\"dcanary\":1}\n"); }
}
void __wrap_tinyjambu_hash_finalize(tinyjambu_hash_state_t *s, unsigned char *out)
{
    __real_tinyjambu_hash_finalize(s, out);
    if (!nested) { fprintf(L(), "{\"e\":\"HFinal\",\"id\":\"kat%ld\",\"obj\":%d,\"canary\":1,\"op\":0", ++evno, objid(s)); jb("out", out, 32);
                   fprintf(L(), ",\"ocanary\":1}\n"); }
}
#endif

#ifdef KATSHIM_HMAC
void __real_tinyjambu_hmac(unsigned char *, const unsigned char *, size_t, const unsigned char *, size_t);
void __real_tinyjambu_hmac_init(tinyjambu_hmac_state_t *, const unsigned char *, size_t);
void __real_tinyjambu_hmac_update(tinyjambu_hmac_state_t *, const unsigned char *, size_t);
void __real_tinyjambu_hmac_finalize(tinyjambu_hmac_state_t *, const unsigned char *, size_t, unsigned char *);
void __wrap_tinyjambu_hmac(unsigned char *out, const unsigned char *key, size_t keylen, const unsigned char *in, size_t inlen)
{
    __real_tinyjambu_hmac(out, key, keylen, in, inlen);
    fprintf(L(), "{\"e\":\"Hmac\",\"id\":\"kat%ld\"", ++evno); jb("k", key, keylen); jb("m", in, inlen); jb("out", out, 32);
    fprintf(L(), ",\"inmod\":0,\"canary\":1}\n");
}
void __wrap_tinyjambu_hmac_init(tinyjambu_hmac_state_t *s, const unsigned char *key, size_t keylen)
{
    __real_tinyjambu_hmac_init(s, key, keylen);
    fprintf(L(), "{\"e\":\"HmInit\",\"id\":\"kat%ld\",\"obj\":%d,\"canary\":1", ++evno, objid(s)); jb("k", key, keylen);
    fprintf(L(), ",\"kcanary\":1}\n");
}
void __wrap_tinyjambu_hmac_update(tinyjambu_hmac_state_t *s, const unsigned char *in, size_t n)
{
    __real_tinyjambu_hmac_update(s, in, n);
    fprintf(L(), "{\"e\":\"HmUpdate\",\"id\":\"kat%ld\",\"obj\":%d,\"canary\":1", ++evno, objid(s)); jb("d", in, n);
    fprintf(L(), ",\"dcanary\":1}\n");
}
void __wrap_tinyjambu_hmac_finalize(tinyjambu_hmac_state_t *s, const unsigned char *key, size_t keylen, unsigned char *out)
{
    __real_tinyjambu_hmac_finalize(s, key, keylen, out);
    fprintf(L(), "{\"e\":\"HmFinal\",\"id\":\"kat%ld\",\"obj\":%d,\"canary\":1", ++evno, objid(s)); jb("k", key, keylen); jb("out", out, 32);
    fprintf(L(), ",\"ocanary\":1}\n");
}
#endif
