/*
 * lkfilter - reduces a valgrind lackey trace (--trace-mem=yes) to what C07 speaks about: the sequence of
 * instruction addresses executed INSIDE the library (address ranges given as lo-hi hex pairs on the command
 * line) and the data addresses those instructions touch.  Prints "<count> <fnv1a-64 of the filtered lines>".
 */
#include <stdio.h>
#include <stdlib.h>
#include <string.h>
#include <stdint.h>
int main(int argc, char **argv)
{
    static char line[256];
    uint64_t lo[512], hi[512]; int n = 0;
    for (int i = 1; i < argc && n < 512; i++) { char *d = strchr(argv[i], '-'); if (!d) continue; lo[n] = strtoull(argv[i], NULL, 16); hi[n] = strtoull(d + 1, NULL, 16); n++; }
    uint64_t h = 0xcbf29ce484222325ULL; unsigned long cnt = 0; int inside = 0;
    while (fgets(line, sizeof(line), stdin)) {
        if (line[0] == 'I') {
            uint64_t a = strtoull(line + 2, NULL, 16);
            inside = 0;
            for (int i = 0; i < n; i++) if (a >= lo[i] && a < hi[i]) { inside = 1; break; }
        } else if (!(line[0] == ' ' && (line[1] == 'L' || line[1] == 'S' || line[1] == 'M'))) {
            continue;                     /* valgrind banner etc. */
        }
        if (inside) { for (char *p = line; *p; p++) { h ^= (unsigned char)*p; h *= 0x100000001B3ULL; } cnt++; }
    }
    printf("%lu %016llx\n", cnt, (unsigned long long)h);
    return 0;
}
