/* empty stand-in for <avr/io.h>: only used to preprocess the AVR assembly files on the host */
