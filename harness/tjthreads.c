/*
 * tjthreads - differential concurrency workload for C19.
 *
 * Every thread owns its buffers and state objects and runs a deterministic workload over all API families
 * (6 ciphers, hash streamed, HMAC with short and >64-byte keys, HKDF, PBKDF2, PRNG with a private callback,
 * PRNG seeded from the built-in system source).  The workloads are first executed serially (one after the
 * other) and then concurrently, released together by a barrier and repeated ROUNDS times; one event per
 * thread reports both result digests.  Built with -fsanitize=thread a data race is reported by TSan.  The threads'
 * decryption outputs of 13 bytes lie back to back in one array (distinct objects without padding between them).
 *
 *   usage: tjthreads <nthreads> <rounds> <seed>
 */
#define _GNU_SOURCE
#include <stdio.h>
#include <stdlib.h>
#include <string.h>
#include <stdint.h>
#include <pthread.h>
#include <errno.h>
#include <sys/types.h>
#include "TinyJAMBU.h"

#define MAXT 64
static int nthreads, rounds;
static uint64_t seed0;
static pthread_barrier_t bar;

static uint64_t sm64(uint64_t *s)
{
    uint64_t z = (*s += 0x9E3779B97F4A7C15ULL);
    z = (z ^ (z >> 30)) * 0xBF58476D1CE4E5B9ULL;
    z = (z ^ (z >> 27)) * 0x94D049BB133111EBULL;
    return z ^ (z >> 31);
}
static void fill(unsigned char *p, size_t n, uint64_t *s) { for (size_t i = 0; i < n; i++) p[i] = (unsigned char)sm64(s); }

typedef struct { uint64_t h; } acc_t;
static void absorb(acc_t *a, const void *p, size_t n)
{
    const unsigned char *q = p;
    for (size_t i = 0; i < n; i++) { a->h ^= q[i]; a->h *= 0x100000001B3ULL; }
}

/* the operating system's entropy call: unique bytes per call, whatever thread asks */
static unsigned long os_counter;
ssize_t __wrap_getrandom(void *buf, size_t len, unsigned flags)
{
    unsigned long c = __atomic_add_fetch(&os_counter, 1, __ATOMIC_SEQ_CST);
    uint64_t s = 0xABCDEF ^ c;
    (void)flags;
    fill(buf, len, &s);
    return (ssize_t)len;
}

static size_t cb(void *ud, unsigned char *buf, size_t size)
{
    uint64_t *s = ud;
    fill(buf, size, s);
    return size;
}

/* plaintext buffers of all threads packed back to back (13 bytes each, no padding): a thread's decryption writes exactly its own
 * 13 bytes; a store that spills over the end of the documented range lands in the neighbour's buffer and races with it */
#define SLOT 13
static unsigned char packed[MAXT * SLOT + 8];
static unsigned char sysout[MAXT][2][32];   /* [thread][serial/concurrent] first block of a system-seeded PRNG */

static uint64_t workload(int t, int phase)
{
    uint64_t s = seed0 * 1000003ULL + (uint64_t)t;
    acc_t a = { 0xcbf29ce484222325ULL };
    unsigned char key[32], nonce[12], ad[40], m[100], c[108], p[100], out[200], longkey[100];
    size_t clen, mlen;
    for (int it = 0; it < 6; it++) {
        fill(key, 32, &s); fill(nonce, 12, &s); fill(ad, 40, &s); fill(m, 100, &s); fill(longkey, 100, &s);
        size_t al = sm64(&s) % 41, ml = sm64(&s) % 101;
        tinyjambu_128_aead_encrypt(c, &clen, m, ml, ad, al, nonce, key); absorb(&a, c, clen);
        absorb(&a, &(int){tinyjambu_128_aead_decrypt(p, &mlen, c, clen, ad, al, nonce, key)}, sizeof(int)); absorb(&a, p, mlen);
        tinyjambu_192_aead_encrypt(c, &clen, m, ml, ad, al, nonce, key); absorb(&a, c, clen);
        tinyjambu_256_aead_encrypt(c, &clen, m, ml, ad, al, nonce, key); absorb(&a, c, clen);
        c[0] ^= 1;
        absorb(&a, &(int){tinyjambu_256_aead_decrypt(p, &mlen, c, clen, ad, al, nonce, key)}, sizeof(int)); absorb(&a, p, mlen);
        tinyjambu_128_siv_encrypt(c, &clen, m, ml, ad, al, nonce, key); absorb(&a, c, clen);
        absorb(&a, &(int){tinyjambu_128_siv_decrypt(p, &mlen, c, clen, ad, al, nonce, key)}, sizeof(int)); absorb(&a, p, mlen);
        {   unsigned char *slot = packed + SLOT * t; size_t l2;         /* neighbours' buffers start right behind this one */
            tinyjambu_128_aead_encrypt(c, &clen, m, SLOT, ad, al, nonce, key);
            if (it & 1) c[SLOT + 2] ^= 4;                               /* forged on odd iterations: the slot is wiped */
            absorb(&a, &(int){tinyjambu_128_aead_decrypt(slot, &l2, c, clen, ad, al, nonce, key)}, sizeof(int)); absorb(&a, slot, SLOT);
            tinyjambu_192_siv_encrypt(c, &clen, m, SLOT, ad, al, nonce, key);
            if (!(it & 1)) c[SLOT] ^= 1;
            absorb(&a, &(int){tinyjambu_192_siv_decrypt(slot, &l2, c, clen, ad, al, nonce, key)}, sizeof(int)); absorb(&a, slot, SLOT); }
        tinyjambu_192_siv_encrypt(c, &clen, m, ml, ad, al, nonce, key); absorb(&a, c, clen);
        tinyjambu_256_siv_encrypt(c, &clen, m, ml, ad, al, nonce, key); absorb(&a, c, clen);
        {   tinyjambu_hash_state_t h; tinyjambu_hash_init(&h);
            tinyjambu_hash_update(&h, m, ml / 3); tinyjambu_hash_update(&h, m + ml / 3, ml - ml / 3);
            tinyjambu_hash_finalize(&h, out); tinyjambu_hash_free(&h); absorb(&a, out, 32); }
        tinyjambu_hmac(out, key, 32, m, ml); absorb(&a, out, 32);
        tinyjambu_hmac(out, longkey, 100, m, ml); absorb(&a, out, 32);          /* keys longer than the block */
        {   tinyjambu_hmac_state_t hm; tinyjambu_hmac_init(&hm, longkey, 70); tinyjambu_hmac_update(&hm, ad, al);
            tinyjambu_hmac_finalize(&hm, longkey, 70, out); tinyjambu_hmac_free(&hm); absorb(&a, out, 32); }
        tinyjambu_hkdf(out, 70, key, 32, longkey, 80, ad, al); absorb(&a, out, 70);
        tinyjambu_pbkdf2(out, 40, longkey, 90, nonce, 12, 2); absorb(&a, out, 40);
        {   tinyjambu_prng_state_t pr; uint64_t es = s ^ 0x5555;
            absorb(&a, &(int){tinyjambu_prng_init_user(&pr, cb, &es, ad, al)}, sizeof(int));
            tinyjambu_prng_set_reseed_limit(&pr, 64);
            tinyjambu_prng_generate(&pr, out, 200); absorb(&a, out, 200);
            tinyjambu_prng_feed(&pr, m, ml); tinyjambu_prng_reseed(&pr);
            tinyjambu_prng_generate(&pr, out, 33); absorb(&a, out, 33); tinyjambu_prng_free(&pr); }
        {   tinyjambu_prng_state_t pr;                       /* the built-in system source */
            tinyjambu_prng_init(&pr, NULL, 0);
            tinyjambu_prng_generate(&pr, out, 32);
            if (it == 0) memcpy(sysout[t][phase], out, 32);
            tinyjambu_prng_reseed(&pr); tinyjambu_prng_generate(&pr, out, 32); tinyjambu_prng_free(&pr); }
    }
    return a.h;
}

static uint64_t serial_res[MAXT], conc_res[MAXT];
static int conc_match[MAXT];

static void *runner(void *arg)
{
    int t = (int)(intptr_t)arg;
    conc_match[t] = 1;
    for (int r = 0; r < rounds; r++) {
        pthread_barrier_wait(&bar);
        uint64_t h = workload(t, 1);
        conc_res[t] = h;
        if (h != serial_res[t]) conc_match[t] = 0;
    }
    return NULL;
}

static void jbytes8(const char *k, uint64_t v)
{
    printf(",\"%s\":[", k);
    for (int i = 0; i < 8; i++) printf(i ? ",%u" : "%u", (unsigned)((v >> (8 * i)) & 0xFF));
    printf("]");
}

int main(int argc, char **argv)
{
    pthread_t th[MAXT];
    nthreads = argc > 1 ? atoi(argv[1]) : 8; rounds = argc > 2 ? atoi(argv[2]) : 4;
    seed0 = argc > 3 ? strtoull(argv[3], NULL, 0) : 1;
    if (nthreads > MAXT) nthreads = MAXT;
    for (int t = 0; t < nthreads; t++) serial_res[t] = workload(t, 0);
    /* serial again: a result must not depend on the unrelated calls made before it */
    int rerun_same = 1;
    for (int t = nthreads - 1; t >= 0; t--) if (workload(t, 0) != serial_res[t]) rerun_same = 0;
    pthread_barrier_init(&bar, NULL, (unsigned)nthreads);
    for (int t = 0; t < nthreads; t++) pthread_create(&th[t], NULL, runner, (void *)(intptr_t)t);
    for (int t = 0; t < nthreads; t++) pthread_join(th[t], NULL);
    /* system-seeded generators: all first blocks distinct (serial and concurrent) */
    int distinct = 1;
    for (int ph = 0; ph < 2; ph++)
        for (int i = 0; i < nthreads; i++) for (int j = i + 1; j < nthreads; j++)
            if (!memcmp(sysout[i][ph], sysout[j][ph], 32)) distinct = 0;
    for (int t = 0; t < nthreads; t++) {
        printf("{\"e\":\"Thread\",\"id\":\"t%d\",\"t\":%d,\"rounds\":%d,\"allmatch\":%d", t, t, rounds, conc_match[t]);
        jbytes8("serial", serial_res[t]); jbytes8("conc", conc_res[t]); printf("}\n");
    }
    printf("{\"e\":\"Serial2\",\"id\":\"rerun\",\"same\":%d}\n", rerun_same);
    printf("{\"e\":\"SysSeed\",\"id\":\"sys\",\"distinct\":%d,\"calls\":%lu}\n", distinct, os_counter);
    printf("{\"e\":\"End\",\"id\":\"?\"}\n");
    return 0;
}
