/* modedrive.c - the modes of operation with the permutation as their ENVIRONMENT.
 *
 * Linked with -Wl,--wrap=tinyjambu_permutation_{128,192,256}: every call the library's AEAD, SIV and hash code makes to the
 * keyed permutation arrives here first (the calls cross object files, so no source hook is needed).  The wrapper logs the
 * call (state words and key words as passed, round count), answers it according to the policy of the current plan line -
 * the real permutation or an adversarial stand-in that makes 2^-32 coincidences certain (keystream word equal to its
 * predecessor, all-ones / all-zero words, fixed points) - and logs the answer.  spec/TJMode.tla is the mode written as a
 * machine with exactly one action per permutation call; spec/TV_Mode.tla validates the recorded call sequence against it.
 *
 * stdin : "<op> <id> <v> <pm> <k> <n> <ad> <x> <flip>"   op = aenc|adec|senc|sdec|hash ; hex fields, "-" = empty ;
 *         x = "@" for adec/sdec: the output of the preceding aenc/senc ; flip = bit of the packet to flip (-1 none) ;
 *         pm = answer policy + 100 if the call works in place (output buffer = input buffer)
 * stdout: ndjson  Call / Perm* / Ret   and a final {"e":"End"} */
#include <stdio.h>
#include <stdlib.h>
#include <string.h>
#include <stdint.h>
#include "TinyJAMBU.h"
#include "backend/tinyjambu-backend.h"

static const char *cur_id = "?";
static int policy;            /* 0 real, else stand-in */
static unsigned ncall;        /* permutation calls since the current API call began */
static uint32_t prev_s2;      /* word 2 of the previous answer */

static void putbytes_words(const uint32_t *w, int nw)
{
    printf("[");
    for (int i = 0; i < nw; i++)
        printf("%s%u,%u,%u,%u", i ? "," : "", (unsigned)(w[i] & 0xFF), (unsigned)((w[i] >> 8) & 0xFF),
               (unsigned)((w[i] >> 16) & 0xFF), (unsigned)(w[i] >> 24));
    printf("]");
}
static void putbytes(const unsigned char *p, size_t n)
{
    printf("[");
    for (size_t i = 0; i < n; i++) printf("%s%u", i ? "," : "", p[i]);
    printf("]");
}

/* the stand-in answers; the specification treats the answer as an arbitrary value, so any function will do */
static void answer(uint32_t s[4], int real_done)
{
    uint32_t in[4] = {s[0], s[1], s[2], s[3]};
    (void)real_done;
    switch (policy) {
    case 1: break;                                                         /* identity: every state a fixed point */
    case 2: s[0] = s[1] = s[2] = s[3] = 0; break;
    case 3: s[0] = s[1] = s[2] = s[3] = 0xFFFFFFFFU; break;
    case 4: if (ncall > 0) s[2] = prev_s2; break;                          /* (after the real permutation) keystream word repeats */
    case 5: s[0] = s[1] = s[2] = s[3] = (ncall & 1) ? 0xFFFFFFFFU : 0; break;
    case 6: if (ncall % 3 == 2) s[2] = 0xFFFFFFFFU; else if (ncall % 3 == 1) s[2] = 0; break;   /* real, sentinel keystream */
    case 7: s[0] = in[1] + ncall; s[1] = in[2] ^ 0x80000000U; s[2] = in[3]; s[3] = in[0] * 2654435761U; break;
    case 8: s[0] = in[0]; s[1] = in[1]; s[2] = in[3]; s[3] = in[2]; break;  /* keystream = what was absorbed last */
    case 9: if (ncall % 2) { s[0] = ~in[0]; s[1] = ~in[1]; s[2] = ~in[2]; s[3] = ~in[3]; } break; /* real / complement alternate */
    default: break;
    }
}

#define WRAP(N, KW) \
void __real_tinyjambu_permutation_##N(tinyjambu_##N##_state_t *state, unsigned rounds); \
void __wrap_tinyjambu_permutation_##N(tinyjambu_##N##_state_t *state, unsigned rounds) \
{ \
    printf("{\"e\":\"Perm\",\"id\":\"%s\",\"v\":%d,\"r\":%u,\"in\":", cur_id, N, rounds); \
    putbytes_words(state->s, 4); printf(",\"key\":"); putbytes_words(state->k, KW); \
    uint32_t k0[KW]; memcpy(k0, state->k, sizeof(k0)); \
    if (policy == 0 || policy == 4 || policy == 6 || (policy == 9 && !(ncall % 2))) \
        __real_tinyjambu_permutation_##N(state, rounds); \
    answer(state->s, 1); \
    prev_s2 = state->s[2]; ncall++; \
    printf(",\"kmod\":%d,\"out\":", memcmp(k0, state->k, sizeof(k0)) != 0); putbytes_words(state->s, 4); printf("}\n"); \
}
WRAP(128, 4)
WRAP(192, 6)
WRAP(256, 8)

static size_t unhex(const char *s, unsigned char **out)
{
    size_t n = (s && strcmp(s, "-")) ? strlen(s) / 2 : 0;
    *out = malloc(n + 32);
    for (size_t i = 0; i < n; i++) { unsigned v = 0; sscanf(s + 2 * i, "%2x", &v); (*out)[i] = (unsigned char)v; }
    return n;
}

typedef void (*enc_fn)(unsigned char *, size_t *, const unsigned char *, size_t, const unsigned char *, size_t,
                       const unsigned char *, const unsigned char *);
typedef int (*dec_fn)(unsigned char *, size_t *, const unsigned char *, size_t, const unsigned char *, size_t,
                      const unsigned char *, const unsigned char *);

static enc_fn encs[2][3] = {{tinyjambu_128_aead_encrypt, tinyjambu_192_aead_encrypt, tinyjambu_256_aead_encrypt},
                            {tinyjambu_128_siv_encrypt, tinyjambu_192_siv_encrypt, tinyjambu_256_siv_encrypt}};
static dec_fn decs[2][3] = {{tinyjambu_128_aead_decrypt, tinyjambu_192_aead_decrypt, tinyjambu_256_aead_decrypt},
                            {tinyjambu_128_siv_decrypt, tinyjambu_192_siv_decrypt, tinyjambu_256_siv_decrypt}};

int main(void)
{
    static char line[1 << 20];
    static unsigned char last[1 << 16]; size_t lastlen = 0;
    setvbuf(stdout, NULL, _IOFBF, 1 << 20);
    while (fgets(line, sizeof(line), stdin)) {
        char *sv = NULL, *f[9] = {0};
        for (int i = 0; i < 9; i++) f[i] = strtok_r(i ? NULL : line, " \n", &sv);
        if (!f[0]) continue;
        if (!strcmp(f[0], "reset")) { printf("{\"e\":\"Reset\",\"id\":\"%s\"}\n", f[1] ? f[1] : "?"); lastlen = 0; continue; }
        if (!f[8]) { fprintf(stderr, "bad plan line\n"); return 4; }
        const char *op = f[0]; cur_id = f[1];
        int v = atoi(f[2]), vi = v == 128 ? 0 : v == 192 ? 1 : 2, siv = (op[0] == 's');
        int pm = atoi(f[3]) % 100, inplace = atoi(f[3]) / 100, flip = atoi(f[8]);
        unsigned char *k, *n, *ad, *x;
        size_t kl = unhex(f[4], &k), nl = unhex(f[5], &n), al = unhex(f[6], &ad), xl;
        (void)kl; (void)nl;
        if (!strcmp(f[7], "@")) { x = malloc(lastlen + 32); memcpy(x, last, lastlen); xl = lastlen; } else xl = unhex(f[7], &x);
        if (flip >= 0 && (size_t)(flip / 8) < xl) x[flip / 8] ^= (unsigned char)(1 << (flip % 8));
        printf("{\"e\":\"Call\",\"id\":\"%s\",\"op\":\"%s\",\"v\":%d,\"pm\":%d,\"k\":", cur_id, op, v, pm); putbytes(k, kl);
        printf(",\"n\":"); putbytes(n, nl); printf(",\"ad\":"); putbytes(ad, al); printf(",\"x\":"); putbytes(x, xl); printf("}\n");
        policy = pm; ncall = 0; prev_s2 = 0;
        if (!strcmp(op, "hash")) {
            unsigned char out[32];
            tinyjambu_hash(out, x, xl);
            policy = 0;
            printf("{\"e\":\"Ret\",\"id\":\"%s\",\"res\":0,\"len\":32,\"out\":", cur_id); putbytes(out, 32); printf("}\n");
        } else if (op[1] == 'e') {
            unsigned char *out = malloc(xl + 64); size_t ol = 0;
            memset(out, 0xA5, xl + 64);
            if (inplace) memcpy(out, x, xl);
            encs[siv][vi](out, &ol, inplace ? out : x, xl, ad, al, n, k);
            policy = 0;
            printf("{\"e\":\"Ret\",\"id\":\"%s\",\"res\":0,\"len\":%zu,\"out\":", cur_id, ol); putbytes(out, xl + 8); printf("}\n");
            if (xl + 8 <= sizeof(last)) { memcpy(last, out, xl + 8); lastlen = xl + 8; }
            free(out);
        } else {
            size_t pl = xl >= 8 ? xl - 8 : 0;
            unsigned char *out = malloc(pl + 64); size_t ol = (size_t)-7;
            memset(out, 0xA5, pl + 64);
            if (inplace && xl >= 8) { free(out); out = malloc(xl + 64); memset(out, 0xA5, xl + 64); memcpy(out, x, xl); }
            int res = decs[siv][vi](out, &ol, (inplace && xl >= 8) ? out : x, xl, ad, al, n, k);
            policy = 0;
            int untouched = 1;
            for (size_t i = 0; i < pl + 64; i++) if (out[i] != 0xA5) untouched = 0;
            printf("{\"e\":\"Ret\",\"id\":\"%s\",\"res\":%d,\"len\":%ld,\"untouched\":%d,\"out\":", cur_id, res,
                   (long)(res == 0 ? (long)ol : -1), untouched); putbytes(out, pl); printf("}\n");
            free(out);
        }
        free(k); free(n); free(ad); free(x);
    }
    printf("{\"e\":\"End\"}\n");
    return 0;
}
