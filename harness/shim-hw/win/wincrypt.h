#include "windows.h"
