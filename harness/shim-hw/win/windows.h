/* Stand-in for <windows.h>/<wincrypt.h>: the three CryptoAPI calls tinyjambu-trng-windows.c makes. */
#ifndef TJ_SHIM_WINDOWS_H
#define TJ_SHIM_WINDOWS_H
#include "../hw.h"
typedef uintptr_t HCRYPTPROV;
typedef int BOOL;
typedef unsigned long DWORD;
typedef unsigned char BYTE;
typedef const void *LPCWSTR;
#define PROV_RSA_FULL 1
#define CRYPT_VERIFYCONTEXT 0xF0000000ul
#define CRYPT_SILENT 0x00000040ul
BOOL CryptAcquireContextW(HCRYPTPROV *prov, LPCWSTR container, LPCWSTR provider, DWORD type, DWORD flags);
BOOL CryptGenRandom(HCRYPTPROV prov, DWORD len, BYTE *buf);
BOOL CryptReleaseContext(HCRYPTPROV prov, DWORD flags);
#endif
