/* Stand-in for the Arduino Due (SAM3X8E) core header: just the TRNG registers tinyjambu-trng-due.c touches. */
#ifndef TJ_SHIM_ARDUINO_H
#define TJ_SHIM_ARDUINO_H
#include "../hw.h"
#define ID_TRNG 41
#define TRNG_CR_KEY(x) (((uint32_t)(x)) << 8)
#define TRNG_CR_ENABLE 1u
#define TRNG_IDR_DATRDY 1u
#define TRNG_ISR_DATRDY 1u
#define REG_TRNG_CR (*hw_wreg(HW_CR))
#define REG_TRNG_IDR (*hw_wreg(HW_IDR))
#define REG_TRNG_ISR (hw_rreg(HW_ISR))
#define REG_TRNG_ODATA (hw_rreg(HW_ODATA))
#define pmc_enable_periph_clk(id) hw_call("pmc_enable_periph_clk", (long)(id))
#endif
