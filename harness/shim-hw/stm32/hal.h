/* Stand-in for the STM32 HAL: the RNG handle type and HAL_RNG_GenerateRandomNumber. */
#ifndef TJ_SHIM_STM32_HAL_H
#define TJ_SHIM_STM32_HAL_H
#include "../hw.h"
typedef struct { int which; } RNG_HandleTypeDef;
typedef enum { HAL_OK = 0, HAL_ERROR = 1, HAL_BUSY = 2, HAL_TIMEOUT = 3 } HAL_StatusTypeDef;
extern RNG_HandleTypeDef hrng, hrng1, hrng2;
HAL_StatusTypeDef HAL_RNG_GenerateRandomNumber(RNG_HandleTypeDef *h, uint32_t *x);
#endif
