#ifndef TJ_SELECT_ONLY
#include "hal.h"
#endif
#ifdef TJ_SHIM_RNG_ENABLED
#define HAL_RNG_MODULE_ENABLED
#endif
