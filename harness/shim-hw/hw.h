/* Shared between the hardware-TRNG shims and hwtrng.c: every access the backend makes to its device is logged, in
 * order, as one NDJSON event, and served from the script of the current call. */
#ifndef TJ_HW_SHIM_H
#define TJ_HW_SHIM_H
#include <stdint.h>
enum { HW_CR = 1, HW_IDR = 2, HW_ISR = 3, HW_ODATA = 4 };
volatile uint32_t *hw_wreg(int reg);        /* returns a shadow cell; the value is logged at the next device access */
uint32_t hw_rreg(int reg);
void hw_call(const char *name, long arg);
#endif
