/*
 * tjdrive - plan executor / trace recorder for the TinyJAMBU conformance checks.
 *
 * Reads plan lines from stdin ("op key=value key=value ..."), performs exactly the
 * public library call each line describes against the library built from /repo's
 * working tree, and writes one ndjson event per call at its return (the linearization
 * point of a sequential library) to stdout.  The driver makes no judgement: every
 * verdict is TLC's, evaluating the TLA+ specification on the recorded events.
 *
 * Observation without source hooks:
 *  - every caller-owned buffer and state object lives in its own mapping, fenced by
 *    PROT_NONE guard pages, either flush against the trailing guard (pl=e) or right
 *    after the leading one (pl=s), with an optional offset for alignment; the slack
 *    is canary-filled and verified after the call ("canary":1 = intact);
 *  - input buffers that the contract says are only read are mapped read-only during
 *    the call (unless they alias an output);
 *  - a SIGSEGV/SIGBUS/SIGABRT/SIGFPE/SIGILL handler logs a Fault event (for which no
 *    specification has an action) and exits, so a crash never silently truncates a trace;
 *  - entropy callbacks are scripted by the plan and every invocation made inside a
 *    call is logged in that call's event.
 *
 * Values: hex string ("00ff.."), "-" for an empty buffer, "null" for a NULL pointer
 * with length 0, "@seed,len,cls" for generated data (cls: r random, h high-bit,
 * f 0xFF, z zero, c counting).
 */
#define _GNU_SOURCE
#include <stdio.h>
#include <stdlib.h>
#include <string.h>
#include <stdint.h>
#include <signal.h>
#include <unistd.h>
#include <errno.h>
#include <sys/mman.h>
#include <pthread.h>
#include <sys/types.h>
#include <sys/syscall.h>
#include "TinyJAMBU.h"
#ifdef TJD_TAINT
#include <valgrind/memcheck.h>
/* secrets are marked undefined for the duration of the library call; memcheck then reports every branch
 * and every address that depends on them.  Outputs are made defined again before they are logged. */
#define SECRET(p, n) do { if ((n) > 0) (void)VALGRIND_MAKE_MEM_UNDEFINED((p), (n)); } while (0)
#define PUBLIC(p, n) do { if ((n) > 0) (void)VALGRIND_MAKE_MEM_DEFINED((p), (n)); } while (0)
#define VG_ERRORS() ((long)VALGRIND_COUNT_ERRORS)
#else
#define SECRET(p, n) do { } while (0)
#define PUBLIC(p, n) do { } while (0)
#define VG_ERRORS() 0L
#endif

/* internal entry points the repository's own unit tests also use */
typedef struct { uint32_t s[4]; uint32_t k[4]; } pstate128;
typedef struct { uint32_t s[4]; uint32_t k[6]; } pstate192;
typedef struct { uint32_t s[4]; uint32_t k[8]; } pstate256;
void tinyjambu_permutation_128(pstate128 *state, unsigned rounds);
void tinyjambu_permutation_192(pstate192 *state, unsigned rounds);
void tinyjambu_permutation_256(pstate256 *state, unsigned rounds);
int tinyjambu_aead_check_tag(unsigned char *plaintext, size_t plaintext_len,
                             const unsigned char *tag1, const unsigned char *tag2, size_t size);
#ifdef TJD_WITH_TRNG
int tinyjambu_trng_generate(unsigned char *out);
#endif

#define PAGE 4096u
#define CANARY 0xC5
#define MAXKV 40
#define BIGLOG 2048          /* buffers longer than this are logged as projections only */

/* ------------------------------------------------------------------ plan parsing */
static char *keys[MAXKV], *vals[MAXKV];
static int nkv;
static char cur_id[128] = "?";
static char cur_op[32] = "?";

static const char *kv(const char *k, const char *def)
{
    for (int i = 0; i < nkv; i++) if (!strcmp(keys[i], k)) return vals[i];
    return def;
}
static long kvi(const char *k, long def)
{
    const char *v = kv(k, NULL);
    return v ? strtol(v, NULL, 0) : def;
}

/* ------------------------------------------------------------------ deterministic data */
static uint64_t sm64(uint64_t *s)
{
    uint64_t z = (*s += 0x9E3779B97F4A7C15ULL);
    z = (z ^ (z >> 30)) * 0xBF58476D1CE4E5B9ULL;
    z = (z ^ (z >> 27)) * 0x94D049BB133111EBULL;
    return z ^ (z >> 31);
}
static void gen_data(unsigned char *p, size_t n, uint64_t seed, char cls)
{
    uint64_t s = seed;
    for (size_t i = 0; i < n; i++) {
        switch (cls) {
        case 'z': p[i] = 0; break;
        case 'f': p[i] = 0xFF; break;
        case 'c': p[i] = (unsigned char)i; break;
        case 'h': p[i] = (unsigned char)(0x80 | (sm64(&s) & 0x7F)); break;
        default:  p[i] = (unsigned char)sm64(&s); break;
        }
    }
}

/* ------------------------------------------------------------------ guarded buffers */
typedef struct {
    unsigned char *map; size_t maplen;      /* whole mapping including guards */
    unsigned char *inner; size_t innerlen;  /* accessible region */
    unsigned char *p; size_t len;           /* the buffer handed to the library */
    int isnull;
    const char *name;
} gbuf;

#define MAXLIVE 64
static gbuf *live[MAXLIVE];
static int nlive;

static void die(const char *msg)
{
    fflush(stdout);
    fprintf(stderr, "tjdrive: %s (op %s id %s)\n", msg, cur_op, cur_id);
    _exit(4);
}

static void galloc(gbuf *g, const char *name, size_t len, int place, unsigned off)
{
    size_t inner = ((len + off + 64 + PAGE - 1) / PAGE) * PAGE;
    memset(g, 0, sizeof(*g));
    g->name = name;
    g->maplen = inner + 2 * PAGE;
    g->map = mmap(NULL, g->maplen, PROT_NONE, MAP_PRIVATE | MAP_ANONYMOUS, -1, 0);
    if (g->map == MAP_FAILED) die("mmap failed");
    g->inner = g->map + PAGE;
    g->innerlen = inner;
    if (mprotect(g->inner, inner, PROT_READ | PROT_WRITE)) die("mprotect failed");
    memset(g->inner, CANARY, inner);
    g->len = len;
    g->p = (place == 's') ? g->inner + off : g->inner + inner - len - off;
    if (nlive < MAXLIVE) live[nlive++] = g;
}
static void gfree(gbuf *g)
{
    for (int i = 0; i < nlive; i++) if (live[i] == g) { live[i] = live[--nlive]; break; }
    if (g->map) munmap(g->map, g->maplen);
    g->map = NULL;
}
/* Two guarded windows exactly dist bytes apart (2^31 or 2^32): buffers of one call that far from each other are ordinary
 * separate buffers; a pointer difference kept in 32 bits would not think so.  Address space only (MAP_NORESERVE). */
static unsigned char *far_base; static size_t far_len;
static void gfar(gbuf *a, gbuf *b, size_t lena, size_t lenb, unsigned long long dist)
{
    size_t mx = lena > lenb ? lena : lenb;
    size_t inner = ((mx + 64 + PAGE - 1) / PAGE) * PAGE, win = inner + 2 * PAGE;
    far_len = (size_t)dist + win + PAGE;
    far_base = mmap(NULL, far_len, PROT_NONE, MAP_PRIVATE | MAP_ANONYMOUS | MAP_NORESERVE, -1, 0);
    if (far_base == MAP_FAILED) die("cannot reserve the address space for a far pair");
    gbuf *gs[2] = {a, b}; size_t ls[2] = {lena, lenb};
    for (int i = 0; i < 2; i++) {
        gbuf *g = gs[i];
        memset(g, 0, sizeof(*g));
        g->name = i ? "far-b" : "far-a";
        g->map = far_base + (i ? dist : 0); g->maplen = win;
        g->inner = g->map + PAGE; g->innerlen = inner;
        if (mprotect(g->inner, inner, PROT_READ | PROT_WRITE)) die("mprotect failed");
        memset(g->inner, CANARY, inner);
        g->len = ls[i]; g->p = g->inner + 16;
        if (nlive < MAXLIVE) live[nlive++] = g;
    }
}
static void gfar_done(void) { if (far_base) { munmap(far_base, far_len); far_base = NULL; } }
static unsigned long long far_dist(void)
{
    const char *f = kv("far", "");
    return !*f ? 0 : (f[0] == '2' ? 1ULL << 31 : 1ULL << 32);
}
static int gcanary(const gbuf *g)
{
    const unsigned char *q;
    if (!g->map) return 1;
    for (q = g->inner; q < g->p; q++) if (*q != CANARY) return 0;
    for (q = g->p + g->len; q < g->inner + g->innerlen; q++) if (*q != CANARY) return 0;
    return 1;
}
static void gro(gbuf *g) { if (g->map) mprotect(g->inner, g->innerlen, PROT_READ); }
static void grw(gbuf *g) { if (g->map) mprotect(g->inner, g->innerlen, PROT_READ | PROT_WRITE); }
static unsigned char *gptr(gbuf *g) { return g->isnull ? NULL : g->p; }

static int hexval(int c)
{
    if (c >= '0' && c <= '9') return c - '0';
    if (c >= 'a' && c <= 'f') return c - 'a' + 10;
    if (c >= 'A' && c <= 'F') return c - 'A' + 10;
    return -1;
}

static char g_place = 'e';
static unsigned g_off[8];
static int g_offn;

/* allocate a guarded buffer holding the value described by spec (see file header);
 * slot selects which entry of the off= list applies */
static void gvalue(gbuf *g, const char *name, const char *spec, int slot)
{
    unsigned off = (slot < g_offn) ? g_off[slot] : 0;
    if (!spec || !strcmp(spec, "-") || !*spec) {
        galloc(g, name, 0, g_place, off);
    } else if (!strcmp(spec, "null")) {
        galloc(g, name, 0, g_place, off);
        g->isnull = 1;
    } else if (spec[0] == '@') {
        unsigned long long seed; unsigned long len; char cls = 'r';
        if (sscanf(spec + 1, "%llu,%lu,%c", &seed, &len, &cls) < 2) die("bad @ value");
        galloc(g, name, len, g_place, off);
        gen_data(g->p, len, seed, cls);
    } else {
        size_t n = strlen(spec);
        if (n & 1) die("odd hex length");
        galloc(g, name, n / 2, g_place, off);
        for (size_t i = 0; i < n / 2; i++) {
            int a = hexval(spec[2 * i]), b = hexval(spec[2 * i + 1]);
            if (a < 0 || b < 0) die("bad hex");
            g->p[i] = (unsigned char)(a * 16 + b);
        }
    }
}

/* ------------------------------------------------------------------ event output */
static void jbytes(const char *key, const unsigned char *p, size_t n)
{
    printf(",\"%s\":[", key);
    for (size_t i = 0; i < n; i++) printf(i ? ",%u" : "%u", p[i]);
    printf("]");
}
static void jint(const char *key, long v) { printf(",\"%s\":%ld", key, v); }
static void jstr(const char *key, const char *v) { printf(",\"%s\":\"%s\"", key, v); }
static void jbegin(const char *ev) { printf("{\"e\":\"%s\",\"id\":\"%s\"", ev, cur_id); }
static void jend(void) { printf("}\n"); fflush(stdout); }
static size_t nonzero(const unsigned char *p, size_t n)
{
    size_t c = 0;
    for (size_t i = 0; i < n; i++) c += (p[i] != 0);
    return c;
}

/* ------------------------------------------------------------------ fault handler */
static void on_fault(int sig, siginfo_t *si, void *ctx)
{
    char buf[512];
    const char *which = "none";
    long rel = 0;
    unsigned char *a = (unsigned char *)si->si_addr;
    (void)ctx;
    for (int i = 0; i < nlive; i++) {
        gbuf *g = live[i];
        if (g->map && a >= g->map && a < g->map + g->maplen) {
            which = g->name;
            rel = (long)(a - g->p);
            break;
        }
    }
    int n = snprintf(buf, sizeof(buf),
        "{\"e\":\"Fault\",\"id\":\"%s\",\"op\":\"%s\",\"sig\":%d,\"buf\":\"%s\",\"rel\":%ld}\n",
        cur_id, cur_op, sig, which, rel);
    fflush(stdout);
    if (write(1, buf, (size_t)n) < 0) { }
    _exit(3);
}

/* ------------------------------------------------------------------ cipher family */
typedef void (*enc_fn)(unsigned char *, size_t *, const unsigned char *, size_t,
                       const unsigned char *, size_t, const unsigned char *, const unsigned char *);
typedef int (*dec_fn)(unsigned char *, size_t *, const unsigned char *, size_t,
                      const unsigned char *, size_t, const unsigned char *, const unsigned char *);

static enc_fn get_enc(const char *mode, long v)
{
    int siv = !strcmp(mode, "siv");
    switch (v) {
    case 128: return siv ? tinyjambu_128_siv_encrypt : tinyjambu_128_aead_encrypt;
    case 192: return siv ? tinyjambu_192_siv_encrypt : tinyjambu_192_aead_encrypt;
    case 256: return siv ? tinyjambu_256_siv_encrypt : tinyjambu_256_aead_encrypt;
    }
    die("bad variant"); return NULL;
}
static dec_fn get_dec(const char *mode, long v)
{
    int siv = !strcmp(mode, "siv");
    switch (v) {
    case 128: return siv ? tinyjambu_128_siv_decrypt : tinyjambu_128_aead_decrypt;
    case 192: return siv ? tinyjambu_192_siv_decrypt : tinyjambu_192_aead_decrypt;
    case 256: return siv ? tinyjambu_256_siv_decrypt : tinyjambu_256_aead_decrypt;
    }
    die("bad variant"); return NULL;
}

static int inputs_same(const gbuf *g, const unsigned char *copy)
{
    return g->len == 0 || !memcmp(g->p, copy, g->len);
}
static unsigned char *dupbuf(const gbuf *g)
{
    unsigned char *c = malloc(g->len + 1);
    if (g->len) memcpy(c, g->p, g->len);
    return c;
}

/* enc mode= v= k= n= ad= m= [alias=1] [pf=byte] [keep=1] */
static void op_enc(void)
{
    const char *mode = kv("mode", "aead");
    long v = kvi("v", 128);
    int alias = (int)kvi("alias", 0);
    gbuf k, n, ad, m, c;
    size_t clen = (size_t)-1;
    gvalue(&k, "key", kv("k", "-"), 3);
    gvalue(&n, "nonce", kv("n", "-"), 4);
    gvalue(&ad, "ad", kv("ad", "-"), 2);
    gvalue(&m, "m", kv("m", "-"), 1);
    if (k.len != (size_t)v / 8 || n.len != 12) die("bad key/nonce length");
    unsigned long long fard = alias ? 0 : far_dist();
    gbuf fm; memset(&fm, 0, sizeof(fm));
    if (fard) gfar(&fm, &c, m.len, m.len + 8, fard);
    else galloc(&c, "c", m.len + 8, g_place, g_offn > 0 ? g_off[0] : 0);
    memset(c.p, (int)kvi("pf", 0xA5), c.len);
    unsigned char *mcopy = dupbuf(&m), *adcopy = dupbuf(&ad), *kcopy = dupbuf(&k), *ncopy = dupbuf(&n);
    const unsigned char *mp = gptr(&m);
    if (fard) { if (m.len) memcpy(fm.p, m.p, m.len); mp = fm.p; gro(&fm); }
    if (alias) { memcpy(c.p, m.p, m.len); mp = c.p; }
    gro(&k); gro(&n); gro(&ad); gro(&m);
    long vg0 = VG_ERRORS();
    SECRET(k.p, k.len); SECRET((void *)mp, m.len);
    get_enc(mode, v)(c.p, &clen, mp, m.len, gptr(&ad), ad.len, n.p, k.p);
    if (kvi("again", 0) && !alias) {
        /* the same call once more into the same output buffer, whose body was overwritten in the meantime but whose last
         * eight bytes still hold the tag of the first call: the result may not depend on what the buffer held before */
        for (size_t i = 0; i < m.len; i++) c.p[i] = (unsigned char)(0x3C + i);
        clen = (size_t)-1;
        get_enc(mode, v)(c.p, &clen, mp, m.len, gptr(&ad), ad.len, n.p, k.p);
    }
    PUBLIC(k.p, k.len); PUBLIC((void *)mp, m.len); PUBLIC(c.p, c.len); PUBLIC(&clen, sizeof(clen));
    long vgerr = VG_ERRORS() - vg0;
    grw(&k); grw(&n); grw(&ad); grw(&m);
    int inmod = !(inputs_same(&m, mcopy) && inputs_same(&ad, adcopy) && inputs_same(&k, kcopy) && inputs_same(&n, ncopy));
    if (fard) { grw(&fm); inmod |= (m.len && memcmp(fm.p, mcopy, m.len) != 0); }
    jbegin("Enc"); jstr("mode", mode); jint("v", v);
    jbytes("k", kcopy, k.len); jbytes("n", ncopy, n.len); jbytes("ad", adcopy, ad.len);
    jbytes("m", mcopy, m.len); jbytes("out", c.p, c.len); jint("clen", (long)clen);
    jint("keep", kvi("keep", 0)); jint("alias", alias); jint("inmod", inmod);
    jint("canary", gcanary(&c) && gcanary(&m) && gcanary(&ad) && gcanary(&k) && gcanary(&n) && gcanary(&fm));
    jint("taint", vgerr); jint("far", (long)(fard >> 30));
    jend();
    free(mcopy); free(adcopy); free(kcopy); free(ncopy);
    if (fm.map) gfree(&fm);
    gfree(&k); gfree(&n); gfree(&ad); gfree(&m); gfree(&c); gfar_done();
}

/* dec mode= v= k= n= ad= c= [alias=1] [pf=byte] [ev=Dec|DecTag]
 * dectag: same, but the event carries only the tag (the body is the current Packet's) */
static void op_dec(int tagonly)
{
    const char *mode = kv("mode", "aead");
    long v = kvi("v", 128);
    int alias = (int)kvi("alias", 0);
    int pf = (int)kvi("pf", 0xA5);
    gbuf k, n, ad, c, m;
    /* *mlen is an output: whatever the caller's variable held before must not matter (mlen0=: -1 SIZE_MAX, else the value) */
    long mlen0 = kvi("mlen0", -1);
    size_t mlen = mlen0 < 0 ? (size_t)-1 : (size_t)mlen0;
    gvalue(&k, "key", kv("k", "-"), 3);
    gvalue(&n, "nonce", kv("n", "-"), 4);
    gvalue(&ad, "ad", kv("ad", "-"), 2);
    gvalue(&c, "c", kv("c", "-"), 1);
    if (k.len != (size_t)v / 8 || n.len != 12) die("bad key/nonce length");
    size_t outlen = c.len >= 8 ? c.len - 8 : 0;
    unsigned char *ccopy = dupbuf(&c), *adcopy = dupbuf(&ad), *kcopy = dupbuf(&k), *ncopy = dupbuf(&n);
    unsigned char *mp; const unsigned char *cp;
    int res;
    galloc(&m, "m", outlen, g_place, g_offn > 0 ? g_off[0] : 0);
    memset(m.p, pf, m.len);
    /* adj=1: the plaintext buffer starts exactly where the packet ends; adj=2: the packet starts exactly where the
     * plaintext buffer ends (touching, not overlapping: both are ordinary separate-buffer calls) */
    int adj = (int)kvi("adj", 0);
    gbuf both; memset(&both, 0, sizeof(both));
    if (adj && !alias) {
        galloc(&both, "c+m", c.len + outlen, g_place, 0);
        if (adj == 1) { memcpy(both.p, c.p, c.len); memset(both.p + c.len, pf, outlen); }
        else { memset(both.p, pf, outlen); memcpy(both.p + outlen, c.p, c.len); }
    }
    unsigned long long fard = (alias || adj) ? 0 : far_dist();
    gbuf fc, fmm; memset(&fc, 0, sizeof(fc)); memset(&fmm, 0, sizeof(fmm));
    if (fard) {          /* packet and output 2 GiB / 4 GiB apart */
        gfar(&fc, &fmm, c.len, outlen, fard);
        if (c.len) memcpy(fc.p, c.p, c.len);
        memset(fmm.p, pf, outlen);
        adj = 3; cp = fc.p; mp = fmm.p;
        gro(&k); gro(&n); gro(&ad); gro(&fc);
    } else if (adj && !alias) {
        cp = (adj == 1) ? both.p : both.p + outlen;
        mp = (adj == 1) ? both.p + c.len : both.p;
        gro(&k); gro(&n); gro(&ad);
    } else if (alias) {
        /* in place: the plaintext overwrites the start of the ciphertext buffer */
        mp = c.p; cp = c.p;
        gro(&k); gro(&n); gro(&ad);
    } else {
        mp = (outlen == 0 && kvi("mnull", 0)) ? NULL : m.p; cp = c.p;
        gro(&k); gro(&n); gro(&ad); gro(&c);
    }
    /* lay=: the caller keeps several of the arguments in one arena, touching but not overlapping
     *   1  [nonce][ad][packet], decrypted in place (the usual datagram layout)
     *   2  [ad][output], packet elsewhere          3  [output][nonce], packet elsewhere
     *   4  a zero-length ad whose pointer is the output pointer                                  */
    int lay = (adj || (alias && kvi("lay", 0) != 1)) ? 0 : (int)kvi("lay", 0);
    const unsigned char *np = n.p, *adp = gptr(&ad);
    gbuf arena; memset(&arena, 0, sizeof(arena));
    if (lay == 4 && ad.len != 0) lay = 0;
    if (lay == 1) {
        galloc(&arena, "arena", 12 + ad.len + c.len, g_place, 0);
        memcpy(arena.p, n.p, 12); if (ad.len) memcpy(arena.p + 12, ad.p, ad.len); memcpy(arena.p + 12 + ad.len, c.p, c.len);
        np = arena.p; adp = arena.p + 12; mp = arena.p + 12 + ad.len; cp = mp; alias = 1;
    } else if (lay == 2) {
        galloc(&arena, "arena", ad.len + outlen, g_place, 0);
        if (ad.len) memcpy(arena.p, ad.p, ad.len); memset(arena.p + ad.len, pf, outlen);
        adp = arena.p; mp = arena.p + ad.len;
    } else if (lay == 3) {
        galloc(&arena, "arena", outlen + 12, g_place, 0);
        memset(arena.p, pf, outlen); memcpy(arena.p + outlen, n.p, 12);
        mp = arena.p; np = arena.p + outlen;
    } else if (lay == 4) {
        adp = mp;
    }
    long vg0 = VG_ERRORS();
    SECRET(k.p, k.len);
    res = get_dec(mode, v)(mp, &mlen, cp, c.len, adp, ad.len, np, k.p);
    PUBLIC(k.p, k.len); PUBLIC(&res, sizeof(res)); PUBLIC(&mlen, sizeof(mlen));
    if (mp) PUBLIC(mp, outlen);
    PUBLIC(c.p, c.len);
    long vgerr = VG_ERRORS() - vg0;
    grw(&k); grw(&n); grw(&ad); grw(&c);
    if (fard) grw(&fc);
    int inmod = !(inputs_same(&ad, adcopy) && inputs_same(&k, kcopy) && inputs_same(&n, ncopy));
    if (!alias) inmod |= !inputs_same(&c, ccopy);
    else if (c.len >= 8) inmod |= (memcmp(c.p + outlen, ccopy + outlen, 8) != 0);  /* tag bytes stay */
    int untouched = 1;
    if (lay == 1) {
        inmod = !(inputs_same(&k, kcopy)) || memcmp(arena.p, ncopy, 12) || memcmp(arena.p + 12, adcopy, ad.len)
                || (c.len >= 8 && memcmp(mp + outlen, ccopy + outlen, 8));
        untouched = !memcmp(mp, ccopy, c.len);
    } else if (lay == 2 || lay == 3) {
        inmod |= (lay == 2) ? (memcmp(arena.p, adcopy, ad.len) != 0) : (memcmp(arena.p + outlen, ncopy, 12) != 0);
        for (size_t i = 0; i < outlen; i++) if (mp[i] != pf) untouched = 0;
    } else if (adj && !alias) {
        inmod |= (memcmp(cp, ccopy, c.len) != 0);
        for (size_t i = 0; i < outlen; i++) if (mp[i] != pf) untouched = 0;
    } else if (alias) untouched = !memcmp(c.p, ccopy, c.len);
    else for (size_t i = 0; i < m.len; i++) if (m.p[i] != pf) untouched = 0;
    jbegin(tagonly ? "DecTag" : "Dec"); jstr("mode", mode); jint("v", v);
    if (tagonly) {
        jbytes("tag", ccopy + outlen, 8);
    } else {
        jbytes("k", kcopy, k.len); jbytes("n", ncopy, n.len); jbytes("ad", adcopy, ad.len);
        jbytes("c", ccopy, c.len);
    }
    jint("res", res);
    jint("mlen", mlen == (size_t)-1 ? -1 : (long)mlen); jint("mlen0", mlen0);
    jbytes("mout", mp ? mp : m.p, outlen);
    jint("untouched", untouched); jint("alias", alias); jint("inmod", inmod);
    jint("canary", gcanary(&c) && gcanary(&m) && gcanary(&ad) && gcanary(&k) && gcanary(&n) && gcanary(&both) && gcanary(&arena)
                   && gcanary(&fc) && gcanary(&fmm));
    jint("taint", vgerr); jint("adj", adj); jint("lay", lay); jint("far", (long)(fard >> 30));
    jend();
    free(ccopy); free(adcopy); free(kcopy); free(ncopy);
    if (both.map) gfree(&both);
    if (arena.map) gfree(&arena);
    if (fc.map) { gfree(&fc); gfree(&fmm); gfar_done(); }
    gfree(&k); gfree(&n); gfree(&ad); gfree(&c); gfree(&m);
}

/* packet k= n= ad= body=   (no library call; tells the trace spec which packet DecTag events refer to) */
static void op_packet(void)
{
    gbuf k, n, ad, b;
    gvalue(&k, "key", kv("k", "-"), 9); gvalue(&n, "nonce", kv("n", "-"), 9);
    gvalue(&ad, "ad", kv("ad", "-"), 9); gvalue(&b, "body", kv("body", "-"), 9);
    jbegin("Packet"); jbytes("k", k.p, k.len); jbytes("n", n.p, n.len); jbytes("ad", ad.p, ad.len);
    jbytes("body", b.p, b.len); jend();
    gfree(&k); gfree(&n); gfree(&ad); gfree(&b);
}

/* checktag pt= t1= t2=  : direct call of tinyjambu_aead_check_tag with size = len(t1) */
static void op_checktag(void)
{
    gbuf pt, t1, t2;
    gvalue(&pt, "pt", kv("pt", "-"), 0); gvalue(&t1, "tag1", kv("t1", "-"), 1); gvalue(&t2, "tag2", kv("t2", "-"), 2);
    unsigned char *ptcopy = dupbuf(&pt);
    gro(&t1); gro(&t2);
    long vg0 = VG_ERRORS();
    SECRET(pt.p, pt.len); SECRET(t1.p, t1.len); SECRET(t2.p, t2.len);
    int res = tinyjambu_aead_check_tag(pt.p, pt.len, t1.p, t2.p, t1.len);
    PUBLIC(pt.p, pt.len); PUBLIC(t1.p, t1.len); PUBLIC(t2.p, t2.len); PUBLIC(&res, sizeof(res));
    long vgerr = VG_ERRORS() - vg0;
    grw(&t1); grw(&t2);
    jbegin("CheckTag"); jbytes("pt", ptcopy, pt.len); jbytes("t1", t1.p, t1.len); jbytes("t2", t2.p, t2.len);
    jint("res", res); jbytes("ptout", pt.p, pt.len);
    jint("canary", gcanary(&pt) && gcanary(&t1) && gcanary(&t2)); jint("taint", vgerr); jend();
    free(ptcopy);
    gfree(&pt); gfree(&t1); gfree(&t2);
}

/* decbig mode= v= seed= adlen= mlen= tamper=kind pos= alias= pf=
 * encrypt generated data with the library, tamper, decrypt, log projections.
 * tamper kinds: 0 none, 1 body byte at pos, 2 tag byte (pos mod 8), 3 ad byte, 4 nonce byte, 5 key byte */
static void op_decbig(void)
{
    const char *mode = kv("mode", "aead");
    long v = kvi("v", 128);
    uint64_t seed = (uint64_t)strtoull(kv("seed", "1"), NULL, 0);
    size_t adlen = (size_t)kvi("adlen", 0), mlen = (size_t)kvi("mlen", 0);
    int tamper = (int)kvi("tamper", 0), alias = (int)kvi("alias", 0), pf = (int)kvi("pf", 0xA5);
    size_t pos = (size_t)kvi("pos", 0);
    char cls = kv("cls", "r")[0];
    gbuf k, n, ad, m, c, o;
    size_t clen = 0, outlen = (size_t)-1;
    galloc(&k, "key", (size_t)v / 8, g_place, 0); gen_data(k.p, k.len, seed ^ 0x11, 'r');
    galloc(&n, "nonce", 12, g_place, 0); gen_data(n.p, 12, seed ^ 0x22, 'r');
    galloc(&ad, "ad", adlen, g_place, 0); gen_data(ad.p, adlen, seed ^ 0x33, cls);
    galloc(&m, "m", mlen, g_place, 0); gen_data(m.p, mlen, seed ^ 0x44, cls);
    /* make sure a projection can tell plaintext from zeros: force non-zero content */
    for (size_t i = 0; i < mlen; i++) if (!m.p[i]) m.p[i] = 0x5A;
    galloc(&c, "c", mlen + 8, g_place, 0);
    get_enc(mode, v)(c.p, &clen, m.p, mlen, ad.p, adlen, n.p, k.p);
    if (clen != mlen + 8) { jbegin("DecBig"); jint("badclen", (long)clen); jend(); }
    switch (tamper) {
    case 1: if (mlen) c.p[pos % mlen] ^= 0x01; else tamper = 0; break;
    case 2: c.p[mlen + (pos % 8)] ^= 0x80; break;
    case 3: if (adlen) ad.p[pos % adlen] ^= 0x10; else tamper = 0; break;
    case 4: n.p[pos % 12] ^= 0x04; break;
    case 5: k.p[pos % k.len] ^= 0x40; break;
    }
    galloc(&o, "mout", mlen, g_place, 0);
    memset(o.p, pf, mlen);
    unsigned char *op = alias ? c.p : o.p;
    gro(&k); gro(&n); gro(&ad); gro(&m); if (!alias) gro(&c);
    int res = get_dec(mode, v)(op, &outlen, c.p, clen, ad.p, adlen, n.p, k.p);
    grw(&k); grw(&n); grw(&ad); grw(&m); grw(&c);
    size_t nz = nonzero(op, mlen), first = (size_t)-1;
    for (size_t i = 0; i < mlen; i++) if (op[i]) { first = i; break; }
    jbegin("DecBig"); jstr("mode", mode); jint("v", v); jint("adlen", (long)adlen); jint("clen", (long)clen);
    jint("tamper", tamper); jint("pos", (long)pos); jint("alias", alias); jint("pf", pf);
    jint("res", res); jint("mlen", outlen == (size_t)-1 ? -1 : (long)outlen);
    jint("nonzero", (long)nz); jint("first", first == (size_t)-1 ? -1 : (long)first);
    jint("eqplain", mlen == 0 || !memcmp(op, m.p, mlen));
    jint("canary", gcanary(&c) && gcanary(&o) && gcanary(&ad) && gcanary(&k) && gcanary(&n)); jend();
    gfree(&k); gfree(&n); gfree(&ad); gfree(&m); gfree(&c); gfree(&o);
}

static void *run_decbig(void *arg) { (void)arg; op_decbig(); return NULL; }

/* ------------------------------------------------------------------ lengths of 4 GiB and more
 * The message is a lazily mapped all-zero region (virtual memory only), described in the event as "zeros:<n>".
 * hashhuge split=a,b,c : hash 'total' zero bytes in one call (no split) or in the given chunks;
 * enchuge  adlen=      : TinyJAMBU encrypt of a short fixed message under associated data of adlen zero bytes. */
static unsigned char *zero_map(unsigned long long n)
{
    void *p = mmap(NULL, n + 4096, PROT_READ, MAP_PRIVATE | MAP_ANONYMOUS | MAP_NORESERVE, -1, 0);
    if (p == MAP_FAILED) die("cannot map the huge zero region");
    return p;
}
static void op_hashhuge(void)
{
    unsigned long long total = strtoull(kv("total", "0"), NULL, 0);
    const char *split = kv("split", "");
    unsigned char *z = zero_map(total), out[32];
    if (!*split) {
        tinyjambu_hash(out, z, (size_t)total);
    } else {
        tinyjambu_hash_state_t st; unsigned long long pos = 0;
        char *c = strdup(split), *sv = NULL;
        tinyjambu_hash_init(&st);
        for (char *t = strtok_r(c, ",", &sv); t; t = strtok_r(NULL, ",", &sv)) {
            unsigned long long n = strtoull(t, NULL, 0);
            if (pos + n > total) die("split exceeds total");
            tinyjambu_hash_update(&st, z + pos, (size_t)n); pos += n;
        }
        if (pos != total) die("split does not add up");
        tinyjambu_hash_finalize(&st, out); tinyjambu_hash_free(&st);
        free(c);
    }
    munmap(z, total + 4096);
    jbegin("HashHuge"); printf(",\"desc\":\"zeros:%llu\"", total); jstr("split", *split ? split : "oneshot"); jbytes("out", out, 32); jend();
}
static void op_enchuge(void)
{
    long v = kvi("v", 128);
    unsigned long long adlen = strtoull(kv("adlen", "0"), NULL, 0);
    unsigned char key[32], nonce[12], m[5] = {1, 2, 3, 4, 5}, c[13]; size_t clen = 0;
    unsigned char *z = zero_map(adlen);
    memset(key, 0x42, sizeof(key)); memset(nonce, 0x24, sizeof(nonce));
    get_enc(kv("mode", "aead"), v)(c, &clen, m, 5, z, (size_t)adlen, nonce, key);
    munmap(z, adlen + 4096);
    jbegin("EncHuge"); jstr("mode", kv("mode", "aead")); jint("v", v); printf(",\"desc\":\"zeros:%llu\"", adlen);
    jint("small", adlen < 65536 ? (long)adlen : -1); jbytes("out", c, 13); jend();
}

/* dechuge mode= v= mlen=  : a packet of mlen + 8 bytes of 0xA5 (mlen may exceed 4 GiB), decrypted in place.  It does not carry a
 * valid tag, so it must be rejected and every one of the mlen plaintext bytes must be zero afterwards.  Lengths above 2^31 do
 * not fit TLC's integers: the event carries them as text and the non-zero count capped at 10^9. */
static void op_dechuge(void)
{
    long v = kvi("v", 128);
    unsigned long long mlen = strtoull(kv("mlen", "0"), NULL, 0);
    unsigned char key[32], nonce[12], ad[3] = {7, 8, 9}; size_t outlen = (size_t)-1;
    unsigned char *p = mmap(NULL, mlen + 8 + 8192, PROT_READ | PROT_WRITE, MAP_PRIVATE | MAP_ANONYMOUS | MAP_NORESERVE, -1, 0);
    if (p == MAP_FAILED) die("cannot map the huge packet");
    unsigned char *c = p + 4096;
    memset(p, 0xC3, 4096); memset(c, 0xA5, mlen + 8); memset(c + mlen + 8, 0xC3, 4096);
    memset(key, 0x42, sizeof(key)); memset(nonce, 0x24, sizeof(nonce));
    int res = get_dec(kv("mode", "aead"), v)(c, &outlen, c, (size_t)(mlen + 8), ad, 3, nonce, key);
    unsigned long long nz = 0, first = 0; int canary = 1;
    for (unsigned long long i = 0; i < mlen; i++) if (c[i]) { if (!nz) first = i; nz++; }
    for (int i = 0; i < 4096; i++) if (p[i] != 0xC3 || c[mlen + 8 + i] != 0xC3) canary = 0;
    munmap(p, mlen + 8 + 8192);
    jbegin("DecBig"); jstr("mode", kv("mode", "aead")); jint("v", v); jint("adlen", 3); jint("clen", 0);
    printf(",\"desc\":\"clen:%llu first-nonzero:%llu\"", mlen + 8, first);
    jint("tamper", 9); jint("pos", 0); jint("alias", 1); jint("pf", 0xA5);
    jint("res", res); jint("mlen", -1);
    jint("nonzero", (long)(nz > 1000000000ULL ? 1000000000ULL : nz)); jint("first", nz ? 1 : -1);
    jint("eqplain", 0); jint("canary", canary); jend();
}

/* ------------------------------------------------------------------ permutation */
/* perm v= rounds= s=<16 bytes hex> k=<key bytes hex>; state words little-endian on this host */
static void op_perm(void)
{
    long v = kvi("v", 128), rounds = kvi("rounds", 1);
    gbuf s, k, st;
    gvalue(&s, "s", kv("s", "-"), 9); gvalue(&k, "k", kv("k", "-"), 9);
    if (s.len != 16 || k.len != (size_t)v / 8) die("bad perm args");
    size_t sz = 16 + k.len;
    galloc(&st, "permstate", sz, g_place, 0);
    uint32_t *w = (uint32_t *)st.p;          /* st.p is 4-aligned: inner end is page aligned and sz % 4 == 0 */
    for (int i = 0; i < 4; i++) w[i] = s.p[4*i] | (s.p[4*i+1] << 8) | (s.p[4*i+2] << 16) | ((uint32_t)s.p[4*i+3] << 24);
    for (size_t i = 0; i < k.len / 4; i++)   /* the backend expects the key words pre-inverted */
        w[4 + i] = ~(k.p[4*i] | (k.p[4*i+1] << 8) | (k.p[4*i+2] << 16) | ((uint32_t)k.p[4*i+3] << 24));
    unsigned char *kw = malloc(k.len); memcpy(kw, st.p + 16, k.len);
    if (v == 128) tinyjambu_permutation_128((pstate128 *)st.p, (unsigned)rounds);
    else if (v == 192) tinyjambu_permutation_192((pstate192 *)st.p, (unsigned)rounds);
    else tinyjambu_permutation_256((pstate256 *)st.p, (unsigned)rounds);
    unsigned char out[16];
    for (int i = 0; i < 4; i++) { out[4*i] = (unsigned char)w[i]; out[4*i+1] = (unsigned char)(w[i] >> 8);
                                  out[4*i+2] = (unsigned char)(w[i] >> 16); out[4*i+3] = (unsigned char)(w[i] >> 24); }
    jbegin("Perm"); jint("v", v); jint("rounds", rounds); jbytes("s", s.p, 16); jbytes("k", k.p, k.len);
    jbytes("out", out, 16); jint("keysame", !memcmp(kw, st.p + 16, k.len)); jint("canary", gcanary(&st)); jend();
    free(kw);
    gfree(&s); gfree(&k); gfree(&st);
}

/* ------------------------------------------------------------------ stateful objects */
#define NOBJ 8
static gbuf hashobj[NOBJ], hmacobj[NOBJ], hkdfobj[NOBJ], prngobj[NOBJ];
static int inj_skipped[NOBJ];    /* pinject did not recognise the private layout: what follows on this object is not judged */
static int obj_fill = 0xAA;      /* what a state object holds before the library first touches it */

static gbuf *getobj(gbuf *tab, const char *name, size_t size)
{
    long i = kvi("obj", 0);
    if (i < 0 || i >= NOBJ) die("bad obj");
    if (!tab[i].map) {
        /* state objects: 8-aligned (they hold unsigned long long), end flush against the guard page */
        galloc(&tab[i], name, size, 'e', 0);
        memset(tab[i].p, obj_fill, size);
    }
    return &tab[i];
}

/* garbage kind=hash|hmac|hkdf|prng obj= seed= : arbitrary prior contents */
static void op_garbage(void)
{
    const char *kind = kv("kind", "hash");
    gbuf *o = !strcmp(kind, "hash") ? getobj(hashobj, "hashstate", sizeof(tinyjambu_hash_state_t)) :
              !strcmp(kind, "hmac") ? getobj(hmacobj, "hmacstate", sizeof(tinyjambu_hmac_state_t)) :
              !strcmp(kind, "hkdf") ? getobj(hkdfobj, "hkdfstate", sizeof(tinyjambu_hkdf_state_t)) :
                                      getobj(prngobj, "prngstate", sizeof(tinyjambu_prng_state_t));
    gen_data(o->p, o->len, (uint64_t)strtoull(kv("seed", "7"), NULL, 0), kv("cls", "r")[0]);
    jbegin("Garbage"); jstr("kind", kind); jint("obj", kvi("obj", 0)); jend();
}

/* Every argument expression of an API call is evaluated exactly once (a function-like macro in the public header that
 * names its argument twice would not): the object pointer of every call is passed as ONCE(p). */
static int g_evals;
#define ONCE(x) (g_evals++, (x))
static void emit_obj(const char *ev, gbuf *o)
{
    jbegin(ev); jint("obj", kvi("obj", 0)); jint("canary", gcanary(o)); jint("evals", g_evals);
}

static void op_hash(void)
{
    gbuf m, out;
    gvalue(&m, "in", kv("m", "-"), 1);
    galloc(&out, "out", 32, g_place, g_offn > 0 ? g_off[0] : 0);
    memset(out.p, (int)kvi("pf", 0xA5), 32);
    unsigned char *mc = dupbuf(&m);
    gro(&m);
    long vg0 = VG_ERRORS();
    SECRET(m.p, m.len);
    int inplace = (int)kvi("inplace", 0);
    gbuf ip; memset(&ip, 0, sizeof(ip));
    if (inplace) {      /* the digest overwrites the start of the message (out == in) */
        grw(&m);
        galloc(&ip, "inplace", m.len > 32 ? m.len : 32, g_place, 0);
        memset(ip.p, (int)kvi("pf", 0xA5), ip.len); if (m.len) memcpy(ip.p, m.p, m.len);
        tinyjambu_hash(ip.p, ip.p, m.len);
        memcpy(out.p, ip.p, 32);
        gro(&m);
    } else
    tinyjambu_hash(out.p, gptr(&m), m.len);
    PUBLIC(m.p, m.len); PUBLIC(out.p, 32);
    long vgerr = VG_ERRORS() - vg0;
    grw(&m);
    int ipok = 1;
    if (inplace) { for (size_t i = 32; i < ip.len; i++) if (ip.p[i] != mc[i]) ipok = 0; ipok = ipok && gcanary(&ip); gfree(&ip); }
    jbegin("Hash");
    if (m.len <= BIGLOG) jbytes("m", mc, m.len); else { jstr("mspec", kv("m", "-")); jint("mlen", (long)m.len); }
    jbytes("out", out.p, 32); jint("inmod", !inputs_same(&m, mc)); jint("canary", gcanary(&out) && gcanary(&m) && ipok);
    jint("taint", vgerr); jint("inplace", inplace); jend();
    free(mc); gfree(&m); gfree(&out);
}
static int hinj_skipped[];
static void op_hinit(int re)
{
    hinj_skipped[kvi("obj", 0) & 7] = 0;
    gbuf *o = getobj(hashobj, "hashstate", sizeof(tinyjambu_hash_state_t));
    long vg0 = VG_ERRORS();
    if (re) tinyjambu_hash_reinit(ONCE((tinyjambu_hash_state_t *)o->p)); else tinyjambu_hash_init(ONCE((tinyjambu_hash_state_t *)o->p));
    long vgerr = VG_ERRORS() - vg0;
    emit_obj(re ? "HReinit" : "HInit", o); jint("taint", vgerr); jend();
}
/* hmove obj=<from> to=<to> : the caller relocates a hash state object (a plain struct: memcpy) and goes on with the copy;
 * the old storage is reused for something else */
static void op_hmove(void)
{
    gbuf *o = getobj(hashobj, "hashstate", sizeof(tinyjambu_hash_state_t));
    long to = kvi("to", 0);
    if (to < 0 || to >= NOBJ) die("bad to");
    if (!hashobj[to].map) { galloc(&hashobj[to], "hashstate", sizeof(tinyjambu_hash_state_t), 'e', 0); }
    gbuf *d = &hashobj[to];
    if (d != o) { memcpy(d->p, o->p, o->len); memset(o->p, 0xDD, o->len); }
    jbegin("HMove"); jint("obj", kvi("obj", 0)); jint("to", to); jint("canary", gcanary(o) && gcanary(d)); jend();
}
/* hinject obj= L=<16 bytes hex> R=<16 bytes hex> : white-box probe of the compression function's chaining values.  The
 * caller-owned hash state is overwritten with a chosen (L, R) - values a real message reaches with probability 2^-32 per
 * word, e.g. a word of R that is all ones or all zero - and the following update / finalize calls are judged by the
 * specification from exactly that state.  The private layout (L, ~R, 16-byte block, posn) is checked through the API
 * first; if it is not recognised the probe and the calls that depend on it are skipped (HInjectSkip), never failed. */
static int hinj_skipped[NOBJ];
static void op_hinject(void)
{
    gbuf *o = getobj(hashobj, "hashstate", sizeof(tinyjambu_hash_state_t));
    gbuf L, R; gvalue(&L, "L", kv("L", "-"), 1); gvalue(&R, "R", kv("R", "-"), 2);
    static const unsigned char probe[5] = {0x31, 0x41, 0x59, 0x26, 0x53};
    int ok = sizeof(tinyjambu_hash_state_t) == 56 && L.len == 16 && R.len == 16;
    memset(o->p, 0xAA, o->len);
    tinyjambu_hash_init((tinyjambu_hash_state_t *)o->p);
    for (int i = 0; ok && i < 16; i++) ok = o->p[i] == 0 && o->p[16 + i] == 0xFF;
    tinyjambu_hash_update((tinyjambu_hash_state_t *)o->p, probe, 5);
    ok = ok && !memcmp(o->p + 32, probe, 5) && o->p[48] == 5 && o->p[49] == 0 && o->p[50] == 0 && o->p[51] == 0;
    hinj_skipped[kvi("obj", 0) & 7] = !ok;
    if (!ok) { jbegin("HInjectSkip"); jint("obj", kvi("obj", 0)); jend(); gfree(&L); gfree(&R); return; }
    tinyjambu_hash_init((tinyjambu_hash_state_t *)o->p);
    memcpy(o->p, L.p, 16);
    for (int i = 0; i < 16; i++) o->p[16 + i] = (unsigned char)~R.p[i];
    jbegin("HInject"); jint("obj", kvi("obj", 0)); jbytes("L", L.p, 16); jbytes("R", R.p, 16); jint("canary", gcanary(o)); jend();
    gfree(&L); gfree(&R);
}
static void op_hupdate(void)
{
    if (hinj_skipped[kvi("obj", 0) & 7]) { jbegin("HInjectSkip"); jint("obj", kvi("obj", 0)); jend(); return; }
    gbuf *o = getobj(hashobj, "hashstate", sizeof(tinyjambu_hash_state_t));
    gbuf d; gvalue(&d, "in", kv("d", "-"), 1);
    unsigned char *dc = dupbuf(&d);
    gro(&d);
    long vg0 = VG_ERRORS();
    SECRET(d.p, d.len);
    tinyjambu_hash_update(ONCE((tinyjambu_hash_state_t *)o->p), gptr(&d), d.len);
    PUBLIC(d.p, d.len);
    long vgerr = VG_ERRORS() - vg0;
    grw(&d);
    emit_obj("HUpdate", o); jbytes("d", dc, d.len); jint("null", d.isnull); jint("inmod", !inputs_same(&d, dc));
    jint("dcanary", gcanary(&d)); jint("taint", vgerr); jend();
    free(dc); gfree(&d);
}
static void op_hfinal(void)
{
    if (hinj_skipped[kvi("obj", 0) & 7]) { jbegin("HInjectSkip"); jint("obj", kvi("obj", 0)); jend(); return; }
    gbuf *o = getobj(hashobj, "hashstate", sizeof(tinyjambu_hash_state_t));
    gbuf out; galloc(&out, "out", 32, g_place, g_offn > 0 ? g_off[0] : 0);
    memset(out.p, (int)kvi("pf", 0xA5), 32);
    long vg0 = VG_ERRORS();
    tinyjambu_hash_finalize(ONCE((tinyjambu_hash_state_t *)o->p), out.p);
    PUBLIC(out.p, 32);
    long vgerr = VG_ERRORS() - vg0;
    emit_obj("HFinal", o); jbytes("out", out.p, 32); jint("ocanary", gcanary(&out)); jint("taint", vgerr); jend();
    gfree(&out);
}
static void op_hfree(void)
{
    gbuf *o = getobj(hashobj, "hashstate", sizeof(tinyjambu_hash_state_t));
    long vg0 = VG_ERRORS();
    tinyjambu_hash_free(ONCE((tinyjambu_hash_state_t *)o->p));
    long vgerr = VG_ERRORS() - vg0;
    emit_obj("HFree", o); jint("size", (long)o->len); jint("nonzero", (long)nonzero(o->p, o->len)); jint("taint", vgerr); jend();
}

static void op_hmac(void)
{
    gbuf k, m, out;
    gvalue(&k, "key", kv("k", "-"), 2); gvalue(&m, "in", kv("m", "-"), 1);
    galloc(&out, "out", 32, g_place, g_offn > 0 ? g_off[0] : 0);
    memset(out.p, (int)kvi("pf", 0xA5), 32);
    unsigned char *kc = dupbuf(&k), *mc = dupbuf(&m);
    gro(&k); gro(&m);
    long vg0 = VG_ERRORS();
    SECRET(k.p, k.len); SECRET(m.p, m.len);
    int inplace = (int)kvi("inplace", 0), ipok = 1;
    if (inplace) {      /* the tag overwrites the start of the message (out == in) */
        gbuf ip; galloc(&ip, "inplace", m.len > 32 ? m.len : 32, g_place, 0);
        memset(ip.p, (int)kvi("pf", 0xA5), ip.len); if (m.len) memcpy(ip.p, mc, m.len);
        tinyjambu_hmac(ip.p, gptr(&k), k.len, ip.p, m.len);
        memcpy(out.p, ip.p, 32);
        for (size_t i = 32; i < ip.len; i++) if (ip.p[i] != mc[i]) ipok = 0;
        ipok = ipok && gcanary(&ip); gfree(&ip);
    } else
    tinyjambu_hmac(out.p, gptr(&k), k.len, gptr(&m), m.len);
    PUBLIC(k.p, k.len); PUBLIC(m.p, m.len); PUBLIC(out.p, 32);
    long vgerr = VG_ERRORS() - vg0;
    grw(&k); grw(&m);
    jbegin("Hmac"); jbytes("k", kc, k.len); jbytes("m", mc, m.len); jbytes("out", out.p, 32);
    jint("inmod", !(inputs_same(&k, kc) && inputs_same(&m, mc)));
    jint("canary", gcanary(&out) && gcanary(&k) && gcanary(&m) && ipok); jint("taint", vgerr); jint("inplace", inplace); jend();
    free(kc); free(mc); gfree(&k); gfree(&m); gfree(&out);
}
static gbuf hmkey[NOBJ];
static void op_hminit(int re)
{
    gbuf *o = getobj(hmacobj, "hmacstate", sizeof(tinyjambu_hmac_state_t));
    gbuf k; gvalue(&k, "key", kv("k", "-"), 2);
    gro(&k);
    long vg0 = VG_ERRORS();
    SECRET(k.p, k.len);
    if (re) tinyjambu_hmac_reinit(ONCE((tinyjambu_hmac_state_t *)o->p), gptr(&k), k.len);
    else tinyjambu_hmac_init(ONCE((tinyjambu_hmac_state_t *)o->p), gptr(&k), k.len);
    PUBLIC(k.p, k.len);
    long vgerr = VG_ERRORS() - vg0;
    grw(&k);
    emit_obj(re ? "HmReinit" : "HmInit", o); jbytes("k", k.p, k.len); jint("kcanary", gcanary(&k)); jint("taint", vgerr); jend();
    /* the caller reuses the key buffer for something else straight away (it stays mapped, with other contents, until the
     * object's next init): the key is an argument of finalize again, nothing may be remembered by address */
    {
        long oi = kvi("obj", 0) & 7;
        if (hmkey[oi].map) gfree(&hmkey[oi]);
        if (k.len) memset(k.p, 0x6B, k.len);
        hmkey[oi] = k;
        for (int i = 0; i < nlive; i++) if (live[i] == &k) live[i] = &hmkey[oi];
    }
}
static void op_hmupdate(void)
{
    gbuf *o = getobj(hmacobj, "hmacstate", sizeof(tinyjambu_hmac_state_t));
    gbuf d; gvalue(&d, "in", kv("d", "-"), 1);
    gro(&d);
    long vg0 = VG_ERRORS();
    SECRET(d.p, d.len);
    tinyjambu_hmac_update(ONCE((tinyjambu_hmac_state_t *)o->p), gptr(&d), d.len);
    PUBLIC(d.p, d.len);
    long vgerr = VG_ERRORS() - vg0;
    grw(&d);
    emit_obj("HmUpdate", o); jbytes("d", d.p, d.len); jint("dcanary", gcanary(&d)); jint("taint", vgerr); jend();
    gfree(&d);
}
static void op_hmfinal(void)
{
    gbuf *o = getobj(hmacobj, "hmacstate", sizeof(tinyjambu_hmac_state_t));
    gbuf k, out; gvalue(&k, "key", kv("k", "-"), 2);
    galloc(&out, "out", 32, g_place, g_offn > 0 ? g_off[0] : 0);
    memset(out.p, (int)kvi("pf", 0xA5), 32);
    gro(&k);
    long vg0 = VG_ERRORS();
    SECRET(k.p, k.len);
    tinyjambu_hmac_finalize(ONCE((tinyjambu_hmac_state_t *)o->p), gptr(&k), k.len, out.p);
    PUBLIC(k.p, k.len); PUBLIC(out.p, 32);
    long vgerr = VG_ERRORS() - vg0;
    grw(&k);
    emit_obj("HmFinal", o); jbytes("k", k.p, k.len); jbytes("out", out.p, 32);
    jint("ocanary", gcanary(&out) && gcanary(&k)); jint("taint", vgerr); jend();
    gfree(&k); gfree(&out);
}
static void op_hmfree(void)
{
    gbuf *o = getobj(hmacobj, "hmacstate", sizeof(tinyjambu_hmac_state_t));
    long vg0 = VG_ERRORS();
    tinyjambu_hmac_free(ONCE((tinyjambu_hmac_state_t *)o->p));
    long vgerr = VG_ERRORS() - vg0;
    emit_obj("HmFree", o); jint("size", (long)o->len); jint("nonzero", (long)nonzero(o->p, o->len)); jint("taint", vgerr); jend();
}

/* hkdf len= key= salt= info= : one-shot */
static void op_hkdf(void)
{
    gbuf key, salt, info, out;
    size_t len = (size_t)kvi("len", 32);
    int pf = (int)kvi("pf", 0xA5);
    gvalue(&key, "key", kv("key", "-"), 1); gvalue(&salt, "salt", kv("salt", "-"), 2); gvalue(&info, "info", kv("info", "-"), 3);
    /* a refused request must write nothing: the buffer is only as large as we dare to offer */
    size_t alloc = len > (1u << 21) ? (1u << 21) : len;
    galloc(&out, "out", alloc, g_place, g_offn > 0 ? g_off[0] : 0);
    memset(out.p, pf, alloc);
    gro(&key); gro(&salt); gro(&info);
    long vg0 = VG_ERRORS();
    SECRET(key.p, key.len); SECRET(salt.p, salt.len);
    int res = tinyjambu_hkdf(out.p, len, gptr(&key), key.len, gptr(&salt), salt.len, gptr(&info), info.len);
    PUBLIC(key.p, key.len); PUBLIC(salt.p, salt.len); PUBLIC(out.p, alloc); PUBLIC(&res, sizeof(res));
    long vgerr = VG_ERRORS() - vg0;
    grw(&key); grw(&salt); grw(&info);
    int untouched = 1;
    for (size_t i = 0; i < alloc; i++) if (out.p[i] != pf) { untouched = 0; break; }
    /* TLC integers are 32-bit: anything above 2^30 is logged as 2^30 (all of it is "more than 8160") */
    jbegin("Hkdf"); jint("len", len > (1u << 30) ? (long)(1u << 30) : (long)len); jbytes("key", key.p, key.len); jbytes("salt", salt.p, salt.len);
    jint("saltnull", salt.isnull); jbytes("info", info.p, info.len); jint("res", res);
    if (alloc <= 8160) jbytes("out", out.p, alloc); else jint("outlen", (long)alloc);
    jint("untouched", untouched);
    jint("canary", gcanary(&out) && gcanary(&key) && gcanary(&salt) && gcanary(&info)); jint("taint", vgerr); jend();
    gfree(&key); gfree(&salt); gfree(&info); gfree(&out);
}
static void op_hkextract(void)
{
    gbuf *o = getobj(hkdfobj, "hkdfstate", sizeof(tinyjambu_hkdf_state_t));
    gbuf key, salt;
    gvalue(&key, "key", kv("key", "-"), 1); gvalue(&salt, "salt", kv("salt", "-"), 2);
    gro(&key); gro(&salt);
    long vg0 = VG_ERRORS();
    SECRET(key.p, key.len); SECRET(salt.p, salt.len);
    tinyjambu_hkdf_extract(ONCE((tinyjambu_hkdf_state_t *)o->p), gptr(&key), key.len, gptr(&salt), salt.len);
    PUBLIC(key.p, key.len); PUBLIC(salt.p, salt.len);
    long vgerr = VG_ERRORS() - vg0;
    grw(&key); grw(&salt);
    emit_obj("HkExtract", o); jbytes("key", key.p, key.len); jbytes("salt", salt.p, salt.len); jint("taint", vgerr); jend();
    gfree(&key); gfree(&salt);
}
static void op_hkexpand(void)
{
    gbuf *o = getobj(hkdfobj, "hkdfstate", sizeof(tinyjambu_hkdf_state_t));
    gbuf info, out;
    size_t len = (size_t)kvi("len", 32);
    int pf = (int)kvi("pf", 0xA5);
    gvalue(&info, "info", kv("info", "-"), 3);
    galloc(&out, "out", len, g_place, g_offn > 0 ? g_off[0] : 0);
    memset(out.p, pf, len);
    gro(&info);
    long vg0 = VG_ERRORS();
    int res = tinyjambu_hkdf_expand(ONCE((tinyjambu_hkdf_state_t *)o->p), gptr(&info), info.len, gptr(&out), len);
    PUBLIC(out.p, len); PUBLIC(&res, sizeof(res));
    long vgerr = VG_ERRORS() - vg0;
    grw(&info);
    emit_obj("HkExpand", o); jint("len", (long)len); jbytes("info", info.p, info.len); jint("res", res);
    jbytes("out", out.p, len); jint("ocanary", gcanary(&out) && gcanary(&info)); jint("taint", vgerr); jend();
    gfree(&info); gfree(&out);
}
static void op_hkfree(void)
{
    gbuf *o = getobj(hkdfobj, "hkdfstate", sizeof(tinyjambu_hkdf_state_t));
    long vg0 = VG_ERRORS();
    tinyjambu_hkdf_free(ONCE((tinyjambu_hkdf_state_t *)o->p));
    long vgerr = VG_ERRORS() - vg0;
    emit_obj("HkFree", o); jint("size", (long)o->len); jint("nonzero", (long)nonzero(o->p, o->len)); jint("taint", vgerr); jend();
}

#ifdef TJD_WRAP_HMAC
/* Layer boundary interposition (accelerator only, DESIGN.md 5.4): every tinyjambu_hmac_finalize() made inside a
 * tinyjambu_pbkdf2() call is recorded, so that the c-fold PRF chain can be validated link by link. */
void __real_tinyjambu_hmac_finalize(tinyjambu_hmac_state_t *state, const unsigned char *key, size_t keylen, unsigned char *out);
static unsigned char *chain; static size_t chain_n, chain_cap; static int chain_on;
void __wrap_tinyjambu_hmac_finalize(tinyjambu_hmac_state_t *state, const unsigned char *key, size_t keylen, unsigned char *out)
{
    __real_tinyjambu_hmac_finalize(state, key, keylen, out);
    if (chain_on) {
        if (chain_n == chain_cap) { chain_cap = chain_cap ? 2 * chain_cap : 1024; chain = realloc(chain, 32 * chain_cap); }
        memcpy(chain + 32 * chain_n++, out, 32);
    }
}
#endif

/* pbkdf2 len= pw= salt= count= */
static void op_pbkdf2(void)
{
    gbuf pw, salt, out;
    size_t len = (size_t)kvi("len", 32);
    unsigned long count = (unsigned long)kvi("count", 1);
    gvalue(&pw, "password", kv("pw", "-"), 1); gvalue(&salt, "salt", kv("salt", "-"), 2);
    galloc(&out, "out", len, g_place, g_offn > 0 ? g_off[0] : 0);
    memset(out.p, (int)kvi("pf", 0xA5), len);
    gro(&pw); gro(&salt);
    long vg0 = VG_ERRORS();
    SECRET(pw.p, pw.len); SECRET(salt.p, salt.len);
#ifdef TJD_WRAP_HMAC
    chain_n = 0; chain_on = (int)kvi("chain", 0);
#endif
    tinyjambu_pbkdf2(gptr(&out), len, gptr(&pw), pw.len, gptr(&salt), salt.len, count);
#ifdef TJD_WRAP_HMAC
    chain_on = 0;
#endif
    PUBLIC(pw.p, pw.len); PUBLIC(salt.p, salt.len); PUBLIC(out.p, len);
    long vgerr = VG_ERRORS() - vg0;
    grw(&pw); grw(&salt);
    jbegin("Pbkdf2"); jint("len", (long)len); jint("count", (long)count);
    jbytes("pw", pw.p, pw.len); jbytes("salt", salt.p, salt.len); jbytes("out", out.p, len);
    jint("canary", gcanary(&out) && gcanary(&pw) && gcanary(&salt)); jint("taint", vgerr);
#ifdef TJD_WRAP_HMAC
    if (kvi("chain", 0)) {
        printf(",\"chain\":[");
        for (size_t i = 0; i < chain_n; i++) {
            printf(i ? ",[" : "[");
            for (int j = 0; j < 32; j++) printf(j ? ",%u" : "%u", chain[32 * i + j]);
            printf("]");
        }
        printf("]");
    }
#endif
    jend();
    gfree(&pw); gfree(&salt); gfree(&out);
}

/* ------------------------------------------------------------------ PRNG with a scripted entropy source */
#define MAXSCRIPT 4096
static struct { int n; unsigned char bytes[32]; } script[MAXSCRIPT];   /* n = bytes delivered; n < 0: claim 32 but ... unused */
static int script_len, script_pos;
static struct { int n; unsigned char bytes[32]; size_t asked; int udok; int os; long at; } calls[MAXSCRIPT];
static int ncalls;
static int ud_cookie;
/* output buffer of the generate call in progress (to observe how much had been written at each request) */
static const unsigned char *gen_out; static size_t gen_size; static int gen_pf;

static long written_so_far(void)
{
    size_t i;
    if (!gen_out) return 0;
    PUBLIC((void *)gen_out, gen_size);      /* output already produced is public; the harness may look at it */
    for (i = gen_size; i > 0; i--) if (gen_out[i - 1] != (unsigned char)gen_pf) break;
    i = ((i + 31) / 32) * 32;          /* output is produced in whole 32-byte blocks before a request */
    return (long)(i > gen_size ? gen_size : i);
}

/* the scripted source: delivers the next scripted item; when the script runs dry it delivers
 * a full block derived from the invocation number (so long histories stay distinguishable) */
static size_t scripted_cb(void *user_data, unsigned char *buf, size_t size)
{
    int n; unsigned char tmp[32];
    if (script_pos < script_len) { n = script[script_pos].n; memcpy(tmp, script[script_pos].bytes, 32); }
    else { n = 32; gen_data(tmp, 32, 0xE000 + (uint64_t)script_pos, 'r'); }
    script_pos++;
    if (n == -32) {            /* "echo": the delivery is whatever the buffer already holds */
        n = (int)(size < 32 ? size : 32);
        PUBLIC(buf, (size_t)n); memcpy(tmp, buf, (size_t)n); SECRET(buf, (size_t)n);
    } else {
        if (n > (int)size) n = (int)size;
        if (n > 0) { memcpy(buf, tmp, (size_t)n); SECRET(buf, (size_t)n); }
    }
    if (ncalls < MAXSCRIPT) {
        calls[ncalls].n = n; memcpy(calls[ncalls].bytes, tmp, 32); calls[ncalls].asked = size;
        calls[ncalls].udok = (user_data == (void *)&ud_cookie);
        calls[ncalls].os = 0; calls[ncalls].at = written_so_far();
        ncalls++;
    }
    return (size_t)(n < 0 ? 0 : n);
}

#ifdef TJD_WRAP_GETRANDOM
/* The operating system's entropy call, scripted: "full:<hex>" succeeds with those bytes, anything else is a
 * permanent failure (EIO).  Linked with -Wl,--wrap=getrandom so that the library's built-in system source
 * (tinyjambu_prng_init, or a NULL callback) is served from the plan's script and logged like a callback. */
ssize_t __wrap_getrandom(void *buf, size_t len, unsigned flags)
{
    int n; unsigned char tmp[32];
    (void)flags;
    if (script_pos < script_len) { n = script[script_pos].n; memcpy(tmp, script[script_pos].bytes, 32); }
    else { n = 32; gen_data(tmp, 32, 0xE000 + (uint64_t)script_pos, 'r'); }
    script_pos++;
    if (n != 32) n = 0;
    if (n) { memcpy(buf, tmp, len < 32 ? len : 32); SECRET(buf, len < 32 ? len : 32); }
    if (ncalls < MAXSCRIPT) {
        calls[ncalls].n = n; memcpy(calls[ncalls].bytes, tmp, 32); calls[ncalls].asked = len;
        calls[ncalls].udok = 1; calls[ncalls].os = 1; calls[ncalls].at = written_so_far();
        ncalls++;
    }
    if (!n) { errno = EIO; return -1; }
    return (ssize_t)len;
}
/* the other two spellings of the OS entropy call a build may select (getentropy: 0 on success;
 * raw syscall: like getrandom, libc convention -1/errno on failure) */
int __wrap_getentropy(void *buf, size_t len)
{
    return __wrap_getrandom(buf, len, 0) < 0 ? -1 : 0;
}
long __real_syscall(long number, long a, long b, long c, long d, long e, long f);
long __wrap_syscall(long number, long a, long b, long c, long d, long e, long f)
{
    if (number == SYS_getrandom) return (long)__wrap_getrandom((void *)a, (size_t)b, (unsigned)c);
    return __real_syscall(number, a, b, c, d, e, f);
}
#endif
static void jentropy(void)
{
    printf(",\"ent\":[");
    for (int i = 0; i < ncalls; i++) {
        printf("%s{\"n\":%d,\"asked\":%ld,\"ud\":%d,\"os\":%d,\"at\":%ld,\"bytes\":[", i ? "," : "", calls[i].n,
               (long)calls[i].asked, calls[i].udok, calls[i].os, calls[i].at);
        for (int j = 0; j < (calls[i].n > 0 ? calls[i].n : 0); j++) printf(j ? ",%u" : "%u", calls[i].bytes[j]);
        printf("]}");
    }
    printf("]");
}
/* script items=full:<64hex>|short:<hex>|none ; separated by '/' ; appended to the pending script */
static void op_script(void)
{
    char *s = strdup(kv("items", ""));
    if (kvi("clear", 0)) { script_len = 0; script_pos = 0; }
    for (char *tok = strtok(s, "/"); tok; tok = strtok(NULL, "/")) {
        if (script_len >= MAXSCRIPT) die("script too long");
        memset(script[script_len].bytes, 0, 32);
        if (!strncmp(tok, "none", 4)) script[script_len].n = 0;
        else if (!strncmp(tok, "echo", 4)) script[script_len].n = -32;      /* claims 32 bytes, writes nothing */
        else {
            char *hx = strchr(tok, ':');
            if (!hx) die("bad script item");
            hx++;
            size_t n = strlen(hx) / 2;
            if (n > 32) die("script item too long");
            for (size_t i = 0; i < n; i++) script[script_len].bytes[i] = (unsigned char)(hexval(hx[2*i]) * 16 + hexval(hx[2*i+1]));
            script[script_len].n = (int)n;
        }
        script_len++;
    }
    free(s);
}

/* pinit obj= custom= src=cb|null|plain : cb = init_user(scripted callback); null = init_user(NULL callback);
 * plain = tinyjambu_prng_init (system source) */
static void op_pinit(void)
{
    inj_skipped[kvi("obj", 0) & 7] = 0;
    gbuf *o = getobj(prngobj, "prngstate", sizeof(tinyjambu_prng_state_t));
    const char *src = kv("src", "cb");
    gbuf cu; gvalue(&cu, "custom", kv("custom", "-"), 1);
    int res;
    long vg_init0 = VG_ERRORS();
    ncalls = 0;
    gro(&cu);
    if (!strcmp(src, "cb"))
        res = tinyjambu_prng_init_user(ONCE((tinyjambu_prng_state_t *)o->p), scripted_cb, &ud_cookie, gptr(&cu), cu.len);
    else if (!strcmp(src, "null"))
        res = tinyjambu_prng_init_user(ONCE((tinyjambu_prng_state_t *)o->p), NULL, NULL, gptr(&cu), cu.len);
    else
        res = tinyjambu_prng_init(ONCE((tinyjambu_prng_state_t *)o->p), gptr(&cu), cu.len);
    grw(&cu);
    PUBLIC(&res, sizeof(res));
    emit_obj("PInit", o); jstr("src", src); jbytes("custom", cu.p, cu.len); jint("cnull", cu.isnull); jint("res", res);
    jint("taint", VG_ERRORS() - vg_init0); jentropy(); jend();
    gfree(&cu);
}
static void op_pgen(void)
{
    if (inj_skipped[kvi("obj", 0) & 7]) { jbegin("PInjectSkip"); jint("obj", kvi("obj", 0)); jend(); return; }
    gbuf *o = getobj(prngobj, "prngstate", sizeof(tinyjambu_prng_state_t));
    size_t size = (size_t)kvi("size", 32);
    gbuf out; galloc(&out, "out", size, g_place, g_offn > 0 ? g_off[0] : 0);
    int pf = (int)kvi("pf", 0xA5);
    memset(out.p, pf, size);
    ncalls = 0;
    gen_out = out.p; gen_size = size; gen_pf = pf;
    long vg0 = VG_ERRORS();
    tinyjambu_prng_generate(ONCE((tinyjambu_prng_state_t *)o->p), size ? out.p : gptr(&out), size);
    PUBLIC(out.p, size);
    long vgerr = VG_ERRORS() - vg0;
    gen_out = NULL;
    emit_obj("PGen", o); jint("size", (long)size);
    if (size <= BIGLOG) jbytes("out", out.p, size);
    else {
        /* projection for long outputs: first and last block, and whether any 32-byte block repeats its predecessor */
        size_t rep = 0;
        for (size_t i = 32; i + 32 <= size; i += 32) if (!memcmp(out.p + i, out.p + i - 32, 32)) rep++;
        jbytes("first", out.p, 32); jbytes("last", out.p + size - 32, 32); jint("repeats", (long)rep);
    }
    if (size <= BIGLOG) jint("repeats", 0);
    jint("ocanary", gcanary(&out)); jint("taint", vgerr); jentropy(); jend();
    gfree(&out);
}
static void op_pfeed(void)
{
    gbuf *o = getobj(prngobj, "prngstate", sizeof(tinyjambu_prng_state_t));
    gbuf d; gvalue(&d, "data", kv("d", "-"), 1);
    ncalls = 0;
    gro(&d);
    long vg0 = VG_ERRORS();
    SECRET(d.p, d.len);
    tinyjambu_prng_feed(ONCE((tinyjambu_prng_state_t *)o->p), gptr(&d), d.len);
    PUBLIC(d.p, d.len);
    long vgerr = VG_ERRORS() - vg0;
    grw(&d);
    emit_obj("PFeed", o); jbytes("d", d.p, d.len); jint("taint", vgerr); jentropy(); jend();
    gfree(&d);
}
static void op_preseed(void)
{
    gbuf *o = getobj(prngobj, "prngstate", sizeof(tinyjambu_prng_state_t));
    ncalls = 0;
    long vg0 = VG_ERRORS();
    int res = tinyjambu_prng_reseed(ONCE((tinyjambu_prng_state_t *)o->p));
    PUBLIC(&res, sizeof(res));
    long vgerr = VG_ERRORS() - vg0;
    emit_obj("PReseed", o); jint("res", res); jint("taint", vgerr); jentropy(); jend();
}
/* pinject obj= kind=wrap|ff|cff|zero|rand counter= seed= :
 * White-box probe of the 256-bit addition V + Hash(3||V) + C + counter: the caller-owned state object is overwritten with
 * a chosen (V, C, counter, limit) - any such value is reachable through the API in principle, but not in a lifetime of
 * sampling (a carry out of the low 32 bits needs about 2^32 / counter blocks) - and the next pgen is judged by the
 * specification from exactly that state.  The private layout (V[32], C[32], counter, limit, callback, user data) is
 * checked through the API first; if it is not what this probe knows, the probe is skipped (PInjectSkip), never failed. */
static void op_pinject(void)
{
    gbuf *o = getobj(prngobj, "prngstate", sizeof(tinyjambu_prng_state_t));
    const char *kind = kv("kind", "wrap");
    uint32_t counter = (uint32_t)kvi("counter", 32700), limit = 32768, c32, l32;
    unsigned char V[32], C[32], H[32], in[33], seedv[32];
    uint64_t seed = (uint64_t)kvi("seed", 1);
    int ok = 0;
    /* layout check through the API: a fresh object, limit 64 bytes -> 2 blocks at offset 68, counter 1 at offset 64,
     * callback at 72, user data at 80 */
    memset(seedv, 0x11, 32);
    script_len = 1; script_pos = 0; script[0].n = 32; memcpy(script[0].bytes, seedv, 32); ncalls = 0;
    tinyjambu_prng_init_user((tinyjambu_prng_state_t *)o->p, scripted_cb, &ud_cookie, NULL, 0);
    tinyjambu_prng_set_reseed_limit((tinyjambu_prng_state_t *)o->p, 64);
    memcpy(&c32, o->p + 64, 4); memcpy(&l32, o->p + 68, 4);
    {
        tinyjambu_prng_callback_t cb; void *ud;
        memcpy(&cb, o->p + 72, sizeof(cb)); memcpy(&ud, o->p + 72 + sizeof(cb), sizeof(ud));
        ok = sizeof(tinyjambu_prng_state_t) == 96 && c32 == 1 && l32 == 2 && cb == scripted_cb && ud == (void *)&ud_cookie;
    }
    tinyjambu_prng_set_reseed_limit((tinyjambu_prng_state_t *)o->p, 1u << 20);
    memcpy(&l32, o->p + 68, 4);
    ok = ok && l32 == 32768;
    script_len = 0; script_pos = 0; ncalls = 0;
    inj_skipped[kvi("obj", 0)] = !ok;
    if (!ok) { jbegin("PInjectSkip"); jint("obj", kvi("obj", 0)); jend(); return; }
    if (!strcmp(kind, "ff")) { memset(V, 0xFF, 32); memset(C, 0, 32); }
    else if (!strcmp(kind, "cff")) { memset(V, 0xFF, 32); memset(C, 0xFF, 32); }
    else if (!strcmp(kind, "zero")) { memset(V, 0, 32); memset(C, 0xFF, 32); C[31] = 0; }
    else {
        gen_data(C, 32, seed ^ 0xC0FFEE, 'r');
        for (int tries = 0; tries < 4000000; tries++) {
            gen_data(V, 32, seed * 7919 + (uint64_t)tries, 'r');
            if (strcmp(kind, "wrap")) break;            /* rand: the first candidate */
            in[0] = 0x03; memcpy(in + 1, V, 32);
            tinyjambu_hash(H, in, 33);
            unsigned carry = 0; uint64_t low = 0;
            for (int i = 31; i >= 28; i--) { carry += V[i] + H[i] + C[i]; low |= (uint64_t)(carry & 0xFF) << (8 * (31 - i)); carry >>= 8; }
            if (low + counter >= (1ull << 32)) break;   /* adding the counter carries out of the low 32 bits */
        }
    }
    memcpy(o->p, V, 32); memcpy(o->p + 32, C, 32); memcpy(o->p + 64, &counter, 4); memcpy(o->p + 68, &limit, 4);
    jbegin("PInject"); jint("obj", kvi("obj", 0)); jstr("kind", kind); jbytes("V", V, 32); jbytes("C", C, 32);
    jint("counter", (long)counter); jint("limit", (long)limit); jint("canary", gcanary(o)); jend();
}
static void op_plimit(void)
{
    gbuf *o = getobj(prngobj, "prngstate", sizeof(tinyjambu_prng_state_t));
    size_t lim = (size_t)strtoull(kv("limit", "1024"), NULL, 0);
    ncalls = 0;
    long vg0 = VG_ERRORS();
    tinyjambu_prng_set_reseed_limit(ONCE((tinyjambu_prng_state_t *)o->p), lim);
    long vgerr = VG_ERRORS() - vg0;
    /* limits are logged in two halves: TLC integers are 32-bit */
    emit_obj("PLimit", o); jint("taint", vgerr); jint("lo", (long)(lim & 0xFFFFFF)); jint("hi", (long)((lim >> 24) & 0xFFFFFF));
    jint("top", (long)(lim >> 48)); jentropy(); jend();
}
static void op_pfree(void)
{
    gbuf *o = getobj(prngobj, "prngstate", sizeof(tinyjambu_prng_state_t));
    long vg0 = VG_ERRORS();
    tinyjambu_prng_free(ONCE((tinyjambu_prng_state_t *)o->p));
    long vgerr = VG_ERRORS() - vg0;
    emit_obj("PFree", o); jint("size", (long)o->len); jint("nonzero", (long)nonzero(o->p, o->len)); jint("taint", vgerr); jend();
}

/* deadstate kind=hash|hmac|hkdf|pbkdf2 m= key= salt= info= len= :
 * The all-in-one functions keep their state object on their own stack and free it before they return; the free must leave
 * nothing of it behind (the compiler may not drop the wipe of an object that is about to die).  The image the object had
 * just before its free is reproduced with the incremental API on a heap object; then the dead stack is poisoned, the
 * all-in-one function is called, and the dead stack is copied out (inline: no call may overwrite it first) and searched
 * for stretches of the image (see below). */
#define DS_SPAN 49152
static unsigned char *volatile ds_lo;
static unsigned char ds_snap[DS_SPAN], ds_img[256];
__attribute__((noinline)) static void ds_poison(void)
{
    volatile unsigned char a[DS_SPAN];
    for (size_t i = 0; i < sizeof(a); i++) a[i] = 0x5A;
    ds_lo = (unsigned char *)a;
    __asm__ volatile("" ::: "memory");
}
static int ds_nontrivial(const unsigned char *w, size_t n)
{
    unsigned char seen[256] = {0}; int d = 0;
    for (size_t i = 0; i < n; i++) if (!seen[w[i]]) { seen[w[i]] = 1; d++; }
    return d >= 8;
}
static void op_deadstate(void)
{
    const char *kind = kv("kind", "hash");
    gbuf m, key, salt, info;
    size_t len = (size_t)kvi("len", 32), imglen = 0;
    unsigned char out1[8160], out2[8160];
    gvalue(&m, "in", kv("m", "-"), 1); gvalue(&key, "key", kv("key", "-"), 2);
    gvalue(&salt, "salt", kv("salt", "-"), 3); gvalue(&info, "info", kv("info", "-"), 4);
    if (len > sizeof(out1)) die("deadstate: len too large");
    void (*volatile f_hash)(unsigned char *, const unsigned char *, size_t) = tinyjambu_hash;
    /* the image of the state object just before its free */
    if (!strcmp(kind, "hash")) {
        tinyjambu_hash_state_t *st = malloc(sizeof(*st));
        tinyjambu_hash_init(st); tinyjambu_hash_update(st, gptr(&m), m.len); tinyjambu_hash_finalize(st, out1);
        imglen = sizeof(*st); memcpy(ds_img, st, imglen); tinyjambu_hash_free(st); free(st);
    } else if (!strcmp(kind, "hmac")) {
        tinyjambu_hmac_state_t *st = malloc(sizeof(*st));
        tinyjambu_hmac_init(st, gptr(&key), key.len); tinyjambu_hmac_update(st, gptr(&m), m.len);
        tinyjambu_hmac_finalize(st, gptr(&key), key.len, out1);
        imglen = sizeof(*st); memcpy(ds_img, st, imglen); tinyjambu_hmac_free(st); free(st);
    } else if (!strcmp(kind, "hkdf")) {
        tinyjambu_hkdf_state_t *st = malloc(sizeof(*st));
        tinyjambu_hkdf_extract(st, gptr(&key), key.len, gptr(&salt), salt.len);
        tinyjambu_hkdf_expand(st, gptr(&info), info.len, out1, len);
        imglen = sizeof(*st); memcpy(ds_img, st, imglen); tinyjambu_hkdf_free(st); free(st);
    } else if (!strcmp(kind, "pbkdf2")) {
        /* count = 1, one block: the last HMAC computation of F is HMAC(password, salt || INT(1)) */
        tinyjambu_hmac_state_t *st = malloc(sizeof(*st));
        unsigned char b[4] = {0, 0, 0, 1};
        tinyjambu_hmac_init(st, gptr(&key), key.len); tinyjambu_hmac_update(st, gptr(&salt), salt.len);
        tinyjambu_hmac_update(st, b, 4); tinyjambu_hmac_finalize(st, gptr(&key), key.len, out1);
        imglen = sizeof(*st); memcpy(ds_img, st, imglen); tinyjambu_hmac_free(st); free(st);
        if (len > 32) len = 32;
    } else die("deadstate: unknown kind");
    if (imglen > sizeof(ds_img)) die("deadstate: image too large");
    memset(out2, 0, sizeof(out2));
    ds_poison();
    if (!strcmp(kind, "hash")) f_hash(out2, gptr(&m), m.len);
    else if (!strcmp(kind, "hmac")) tinyjambu_hmac(out2, gptr(&key), key.len, gptr(&m), m.len);
    else if (!strcmp(kind, "hkdf")) tinyjambu_hkdf(out2, len, gptr(&key), key.len, gptr(&salt), salt.len, gptr(&info), info.len);
    else tinyjambu_pbkdf2(out2, len, gptr(&key), key.len, gptr(&salt), salt.len, 1);
    {   /* copy the dead stack out before any other call can touch it */
        const volatile unsigned char *src = ds_lo;
        for (size_t i = 0; i < DS_SPAN; i++) ds_snap[i] = src[i];
    }
    size_t cmp = !strcmp(kind, "hkdf") || !strcmp(kind, "pbkdf2") ? len : 32;
    int same = !memcmp(out1, out2, cmp);          /* the image belongs to the same computation */
    /* the longest non-trivial stretch of the image found anywhere in the dead stack.  Values the algorithms handle as a
     * unit (a digest, a block: at most 32 bytes) may legitimately survive as scratch copies next to each other; a stretch
     * longer than that is (part of) the object itself. */
    long maxrun = 0, dirty = 0, nontrivial = 0;
    for (size_t i = 0; i < DS_SPAN; i++) if (ds_snap[i] != 0x5A) dirty++;
    for (size_t o = 0; o + 33 <= imglen; o++) if (ds_nontrivial(ds_img + o, 33)) nontrivial++;
    for (size_t p = 0; p < DS_SPAN; p++) {
        if (ds_snap[p] == 0x5A) continue;
        for (size_t o = 0; o < imglen; o++) {
            if (ds_snap[p] != ds_img[o]) continue;
            if (p > 0 && o > 0 && ds_snap[p - 1] == ds_img[o - 1]) continue;      /* not the start of a stretch */
            size_t n = 0;
            while (p + n < DS_SPAN && o + n < imglen && ds_snap[p + n] == ds_img[o + n]) n++;
            if ((long)n > maxrun && n >= 16 && ds_nontrivial(ds_img + o, n)) maxrun = (long)n;
        }
    }
    jbegin("DeadState"); jstr("kind", kind); jint("imglen", (long)imglen); jint("windows", nontrivial); jint("maxrun", maxrun);
    jint("same", same); jint("dirty", dirty > 0); jend();
    gfree(&m); gfree(&key); gfree(&salt); gfree(&info);
}

/* clean size= off= : tinyjambu_clean on the middle of a canary-surrounded region */
static void op_clean(void)
{
    size_t size = (size_t)kvi("size", 0);
    unsigned off = (unsigned)kvi("o", 0);
    gbuf b; galloc(&b, "cleanbuf", size, g_place, off);
    memset(b.p, 0xEE, size);
    tinyjambu_clean(size ? b.p : b.p, (unsigned)size);
    jbegin("Clean"); jint("size", (long)size); jint("off", off); jint("nonzero", (long)nonzero(b.p, size));
    jint("canary", gcanary(&b)); jend();
    gfree(&b);
}

#ifdef TJD_WITH_TRNG
static void op_trng(void)
{
    gbuf out; galloc(&out, "seed", 32, g_place, 0);
    memset(out.p, 0xA5, 32);
    int res = tinyjambu_trng_generate(out.p);
    jbegin("Trng"); jint("res", res); jbytes("out", out.p, 32); jint("canary", gcanary(&out)); jend();
    gfree(&out);
}
#endif

/* reset: new execution; all objects are dropped, the entropy script is cleared */
static void op_reset(void)
{
    for (int i = 0; i < NOBJ; i++) {
        if (hashobj[i].map) gfree(&hashobj[i]);
        if (hmacobj[i].map) gfree(&hmacobj[i]);
        if (hkdfobj[i].map) gfree(&hkdfobj[i]);
        if (prngobj[i].map) gfree(&prngobj[i]);
        if (hmkey[i].map) gfree(&hmkey[i]);
    }
    script_len = script_pos = 0; memset(inj_skipped, 0, sizeof(inj_skipped)); memset(hinj_skipped, 0, sizeof(int) * NOBJ);
    obj_fill = (int)kvi("fill", 0xAA);
    jbegin("Reset"); jend();
}

int main(void)
{
    static char line[1 << 23];      /* a 2 MiB message is 4 MiB of hex */
    struct sigaction sa;
    memset(&sa, 0, sizeof(sa));
    sa.sa_sigaction = on_fault;
    sa.sa_flags = SA_SIGINFO;
    sigaction(SIGSEGV, &sa, NULL); sigaction(SIGBUS, &sa, NULL); sigaction(SIGABRT, &sa, NULL);
    sigaction(SIGFPE, &sa, NULL); sigaction(SIGILL, &sa, NULL);
    while (fgets(line, sizeof(line), stdin)) {
        char *save = NULL, *tok;
        size_t L = strlen(line);
        while (L && (line[L-1] == '\n' || line[L-1] == '\r')) line[--L] = 0;
        if (!L || line[0] == '#') continue;
        tok = strtok_r(line, " ", &save);
        if (!tok) continue;
        snprintf(cur_op, sizeof(cur_op), "%s", tok);
        nkv = 0;
        while ((tok = strtok_r(NULL, " ", &save)) && nkv < MAXKV) {
            char *eq = strchr(tok, '=');
            if (!eq) continue;
            *eq = 0; keys[nkv] = tok; vals[nkv] = eq + 1; nkv++;
        }
        snprintf(cur_id, sizeof(cur_id), "%s", kv("id", "?"));
        g_place = kv("pl", "e")[0];
        g_offn = 0;
        { const char *o = kv("off", NULL);
          if (o) { char *c = strdup(o), *sv = NULL; for (char *t = strtok_r(c, ",", &sv); t && g_offn < 8; t = strtok_r(NULL, ",", &sv)) g_off[g_offn++] = (unsigned)atoi(t); free(c); } }
        g_evals = 0;
        if (kvi("smallstack", 0) && !strcmp(cur_op, "decbig")) {
            /* the call runs on a 96 KiB stack: the library's own stack use must not grow with the message (an embedded
             * task or a small-stack thread decrypting a large packet); an overflow ends the process and is reported as a fault */
            pthread_attr_t at; pthread_t th;
            pthread_attr_init(&at); pthread_attr_setstacksize(&at, 96 * 1024);
            if (pthread_create(&th, &at, run_decbig, NULL)) die("cannot create the small-stack thread");
            pthread_join(th, NULL); pthread_attr_destroy(&at);
            continue;
        }
        if (!strcmp(cur_op, "reset")) op_reset();
        else if (!strcmp(cur_op, "enc")) op_enc();
        else if (!strcmp(cur_op, "dec")) op_dec(0);
        else if (!strcmp(cur_op, "dectag")) op_dec(1);
        else if (!strcmp(cur_op, "packet")) op_packet();
        else if (!strcmp(cur_op, "checktag")) op_checktag();
        else if (!strcmp(cur_op, "decbig")) op_decbig();
        else if (!strcmp(cur_op, "perm")) op_perm();
        else if (!strcmp(cur_op, "hashhuge")) op_hashhuge();
        else if (!strcmp(cur_op, "enchuge")) op_enchuge();
        else if (!strcmp(cur_op, "dechuge")) op_dechuge();
        else if (!strcmp(cur_op, "garbage")) op_garbage();
        else if (!strcmp(cur_op, "hash")) op_hash();
        else if (!strcmp(cur_op, "hinit")) op_hinit(0);
        else if (!strcmp(cur_op, "hreinit")) op_hinit(1);
        else if (!strcmp(cur_op, "hupdate")) op_hupdate();
        else if (!strcmp(cur_op, "hmove")) op_hmove();
        else if (!strcmp(cur_op, "hinject")) op_hinject();
        else if (!strcmp(cur_op, "hfinal")) op_hfinal();
        else if (!strcmp(cur_op, "hfree")) op_hfree();
        else if (!strcmp(cur_op, "hmac")) op_hmac();
        else if (!strcmp(cur_op, "hminit")) op_hminit(0);
        else if (!strcmp(cur_op, "hmreinit")) op_hminit(1);
        else if (!strcmp(cur_op, "hmupdate")) op_hmupdate();
        else if (!strcmp(cur_op, "hmfinal")) op_hmfinal();
        else if (!strcmp(cur_op, "hmfree")) op_hmfree();
        else if (!strcmp(cur_op, "hkdf")) op_hkdf();
        else if (!strcmp(cur_op, "hkextract")) op_hkextract();
        else if (!strcmp(cur_op, "hkexpand")) op_hkexpand();
        else if (!strcmp(cur_op, "hkfree")) op_hkfree();
        else if (!strcmp(cur_op, "pbkdf2")) op_pbkdf2();
        else if (!strcmp(cur_op, "script")) op_script();
        else if (!strcmp(cur_op, "pinit")) op_pinit();
        else if (!strcmp(cur_op, "pgen")) op_pgen();
        else if (!strcmp(cur_op, "pfeed")) op_pfeed();
        else if (!strcmp(cur_op, "preseed")) op_preseed();
        else if (!strcmp(cur_op, "plimit")) op_plimit();
        else if (!strcmp(cur_op, "pinject")) op_pinject();
        else if (!strcmp(cur_op, "pfree")) op_pfree();
        else if (!strcmp(cur_op, "clean")) op_clean();
        else if (!strcmp(cur_op, "deadstate")) op_deadstate();
#ifdef TJD_WITH_TRNG
        else if (!strcmp(cur_op, "trng")) op_trng();
#endif
        else die("unknown op");
    }
    jbegin("End"); jend();
    return 0;
}
