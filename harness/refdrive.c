/* refdrive.c - drives the repository's own reference implementations (tools/sivref, tools/hashref: the programs the
 * test vectors were generated with) on arbitrary inputs, so that the TLA+ oracles can be validated against them beyond
 * the committed vectors (and they against the oracles).  One build per reference: -DREF_SIV with
 * -DCRYPTO_KEYBYTES=16|24|32 and tools/sivref/encrypt-<n>.c; -DREF_HASH with tools/hashref/{hash,hmac,state}.c.
 * stdin: "enc <id> <k> <n> <ad> <m>" | "dec <id> <k> <n> <ad> <c>" | "hash <id> <m>" | "hmac <id> <k> <m>"   (hex, "-" = empty)
 * stdout: "<id> <res> <hex>" */
#include <stdio.h>
#include <stdlib.h>
#include <string.h>
#ifdef REF_SIV
#include "crypto_aead.h"
#else
#include "crypto_hash.h"
#include "crypto_auth.h"
#endif
static size_t unhex(const char *s, unsigned char **out)
{
    size_t n = strcmp(s, "-") ? strlen(s) / 2 : 0;
    *out = malloc(n + 16);
    for (size_t i = 0; i < n; i++) { unsigned v; sscanf(s + 2 * i, "%2x", &v); (*out)[i] = (unsigned char)v; }
    return n;
}
static void puthex(const unsigned char *p, size_t n) { if (!n) printf("-"); for (size_t i = 0; i < n; i++) printf("%02x", p[i]); }
int main(void)
{
    static char line[1 << 22];
    while (fgets(line, sizeof(line), stdin)) {
        char *sv = NULL, *op = strtok_r(line, " \n", &sv), *id = strtok_r(NULL, " \n", &sv);
        char *f[4] = {0};
        for (int i = 0; i < 4; i++) f[i] = strtok_r(NULL, " \n", &sv);
        if (!op || !id) continue;
        unsigned char *a = NULL, *b = NULL, *c = NULL, *d = NULL;
#ifdef REF_SIV
        if (!strcmp(op, "enc") || !strcmp(op, "dec")) {
            size_t kl = unhex(f[0], &a), nl = unhex(f[1], &b), al = unhex(f[2], &c), xl = unhex(f[3], &d);
            unsigned char *out = malloc(xl + 64); unsigned long long ol = 0; int res;
            if (kl != CRYPTO_KEYBYTES || nl != 12) { printf("%s -99 -\n", id); continue; }
            memset(out, 0xA5, xl + 64);
            if (!strcmp(op, "enc")) res = crypto_aead_encrypt(out, &ol, d, xl, c, al, NULL, b, a);
            else res = crypto_aead_decrypt(out, &ol, NULL, d, xl, c, al, b, a);
            printf("%s %d ", id, res); puthex(out, res == 0 ? (size_t)ol : (xl >= 8 && strcmp(op, "enc") ? xl - 8 : 0)); printf("\n");
            free(out);
        }
#else
        if (!strcmp(op, "hash")) {
            size_t ml = unhex(f[0], &a); unsigned char out[32];
            int res = crypto_hash(out, a, ml);
            printf("%s %d ", id, res); puthex(out, 32); printf("\n");
        } else if (!strcmp(op, "hmac")) {
            size_t kl = unhex(f[0], &a), ml = unhex(f[1], &b); unsigned char out[32];
            if (kl != 32) { printf("%s -99 -\n", id); continue; }
            int res = crypto_auth(out, b, ml, a);
            printf("%s %d ", id, res); puthex(out, 32); printf("\n");
        }
#endif
        free(a); free(b); free(c); free(d);
    }
    return 0;
}
