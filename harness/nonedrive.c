/*
 * nonedrive - runs tinyjambu_trng_generate() of src/random/tinyjambu-trng-none.c (the fallback for platforms
 * without any entropy source, force-selected with -DTINYJAMBU_TRNG_SELECT_H -DTINYJAMBU_TRNG_NONE=1) with a
 * scripted clock (clock_gettime / gettimeofday / time interposed at link time) and, in the "hatch" build, with
 * the application escape hatch tinyjambu_trng_get_bytes[_is_good] overridden.
 * Plan line:  none id=<id> good=0|1 ok=0|1 t=<n>     (t seeds the scripted clock readings)
 * Event:      {"e":"NoneTrng","id":..,"good":..,"ok":..,"times":[[struct bytes]...],"res":..,"out":[32 bytes]}
 */
#define _GNU_SOURCE
#include <stdio.h>
#include <stdlib.h>
#include <string.h>
#include <time.h>
#include <sys/time.h>

int tinyjambu_trng_generate(unsigned char *out);

static int hatch_good, hatch_ok;
static unsigned long tseed;
static unsigned char logged[8][32]; static size_t loglen[8]; static int nlog;
static const unsigned char hatch_bytes[32] = {9,8,7,6,5,4,3,2,1,0,11,12,13,14,15,16,17,18,19,20,21,22,23,24,25,26,27,28,29,30,31,32};

#ifdef NONE_WITH_HATCH
int tinyjambu_trng_get_bytes(unsigned char *out, size_t outlen)
{
    if (!hatch_ok) { memset(out, 0x5E, outlen / 2); return 0; }     /* a failing hatch may have scribbled */
    memcpy(out, hatch_bytes, outlen < 32 ? outlen : 32);
    return 1;
}
int tinyjambu_trng_get_bytes_is_good(void) { return hatch_good; }
#endif

static void remember(const void *p, size_t n)
{
    if (nlog < 8) { memcpy(logged[nlog], p, n < 32 ? n : 32); loglen[nlog] = n < 32 ? n : 32; nlog++; }
}
int __wrap_clock_gettime(clockid_t id, struct timespec *ts)
{
    memset(ts, 0, sizeof(*ts));
    ts->tv_sec = (time_t)(1700000000UL + tseed * 977 + (unsigned long)id * 31);
    ts->tv_nsec = (long)((tseed * 7919 + (unsigned long)id * 104729) % 1000000000UL);
    remember(ts, sizeof(*ts));
    return 0;
}
int __wrap_gettimeofday(struct timeval *tv, void *tz)
{
    (void)tz; memset(tv, 0, sizeof(*tv));
    tv->tv_sec = (time_t)(1700000000UL + tseed * 977); tv->tv_usec = (long)((tseed * 7919) % 1000000UL);
    remember(tv, sizeof(*tv));
    return 0;
}
time_t __wrap_time(time_t *t)
{
    time_t v = (time_t)(1700000000UL + tseed * 977);
    if (t) *t = v;
    remember(&v, sizeof(v));
    return v;
}

int main(void)
{
    char line[512];
    while (fgets(line, sizeof(line), stdin)) {
        char id[96] = "?"; int good = 0, ok = 0; unsigned long t = 1;
        if (strncmp(line, "none ", 5)) continue;
        for (char *sv = NULL, *tok = strtok_r(line + 5, " \n", &sv); tok; tok = strtok_r(NULL, " \n", &sv)) {
            if (!strncmp(tok, "id=", 3)) snprintf(id, sizeof(id), "%s", tok + 3);
            else if (!strncmp(tok, "good=", 5)) good = atoi(tok + 5);
            else if (!strncmp(tok, "ok=", 3)) ok = atoi(tok + 3);
            else if (!strncmp(tok, "t=", 2)) t = strtoul(tok + 2, NULL, 0);
        }
        hatch_good = good; hatch_ok = ok; tseed = t; nlog = 0;
        unsigned char buf[48]; memset(buf, 0xA5, sizeof(buf));
        int res = tinyjambu_trng_generate(buf + 8);
        int guard = 1; for (int i = 0; i < 8; i++) guard &= buf[i] == 0xA5 && buf[40 + i] == 0xA5;
#ifndef NONE_WITH_HATCH
        good = 0; ok = 0;
#endif
        printf("{\"e\":\"NoneTrng\",\"id\":\"%s\",\"good\":%d,\"ok\":%d,\"res\":%d,\"guard\":%d,\"hatch\":[", id, good, ok, res, guard);
        for (int i = 0; i < 32; i++) printf(i ? ",%u" : "%u", hatch_bytes[i]);
        printf("],\"times\":[");
        for (int j = 0; j < nlog; j++) { printf(j ? ",[" : "["); for (size_t i = 0; i < loglen[j]; i++) printf(i ? ",%u" : "%u", logged[j][i]); printf("]"); }
        printf("],\"out\":[");
        for (int i = 0; i < 32; i++) printf(i ? ",%u" : "%u", buf[8 + i]);
        printf("]}\n"); fflush(stdout);
    }
    printf("{\"e\":\"End\",\"id\":\"?\"}\n");
    return 0;
}
