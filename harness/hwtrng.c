/* hwtrng.c - conformance harness for the hardware / non-Unix entropy back ends of src/random.
 *
 * The back end's own source file is compiled into this program (one of -DHW_DUE, -DHW_STM32, -DHW_ESP, -DHW_WIN) against
 * stand-in platform headers (harness/shim-hw).  Every access the back end makes to its device - a register read or
 * write, a HAL / SDK / CryptoAPI call - is served from the script of the current call and logged, in program order, as
 * one NDJSON event.  TLC validates the log against spec/TV_TrngHw.tla (device protocol + result contract).
 *
 * stdin:  call id=<name> [d=<delay>,<delay>,...] [st=<status>,...] [acq=0|1] [gen=0|1] seed=<n>
 *   d    Due: number of "not ready" answers the TRNG gives before each word is ready (missing entries: 0)
 *   st   STM32: HAL status of each HAL_RNG_GenerateRandomNumber call (missing entries: 0 = HAL_OK)
 *   acq/gen  Windows: result of CryptAcquireContextW / CryptGenRandom
 * stdout: {"e":"Reset","backend":..} then per call {"e":"Call"}, {"e":"Dev",..}*, {"e":"Ret",..}
 */
#define _GNU_SOURCE
#include <stdio.h>
#include <stdlib.h>
#include <string.h>
#include <stdint.h>
#include <unistd.h>
#include <sys/mman.h>
#include "shim-hw/hw.h"

#if defined(HW_DUE)
#define BACKEND "due"
#include "tinyjambu-trng-due.c"
#elif defined(HW_STM32)
#define BACKEND "stm32"
#include "tinyjambu-trng-stm32.c"
#elif defined(HW_ESP)
#if defined(ESP8266)
#define BACKEND "esp8266"
#else
#define BACKEND "esp32"
#endif
#include "tinyjambu-trng-esp.c"
#elif defined(HW_WIN)
#define BACKEND "windows"
#include "tinyjambu-trng-windows.c"
#else
#error "select a back end"
#endif

#define MAXW 64
static long delays[MAXW], statuses[MAXW];
static int ndelays, nstatuses, acq_ok = 1, gen_ok = 1;
static uint64_t seed;
static int word_i;            /* device words handed out in this call */
static int polls;             /* not-ready answers given for the current word */
static long accesses;
static char cur_id[64] = "?";
static volatile uint32_t shadow[8];
static int pending_w;         /* register with a write not yet logged */

static uint32_t value_of(int i)
{
    uint64_t x = seed * 0x9E3779B97F4A7C15ull + (uint64_t)(i + 1) * 0xBF58476D1CE4E5B9ull;
    x ^= x >> 31; x *= 0x94D049BB133111EBull; x ^= x >> 29;
    return (uint32_t)x | 0x01000000u;      /* never 0 and never the failure marker pattern by accident */
}
static void jword(const char *k, uint32_t v)
{
    printf(",\"%s\":[%u,%u,%u,%u]", k, v & 255, (v >> 8) & 255, (v >> 16) & 255, (v >> 24) & 255);
}
static const char *regname(int r) { return r == HW_CR ? "CR" : r == HW_IDR ? "IDR" : r == HW_ISR ? "ISR" : "ODATA"; }
static void flush_write(void)
{
    if (pending_w) {
        printf("{\"e\":\"Dev\",\"id\":\"%s\",\"op\":\"W\",\"reg\":\"%s\"", cur_id, regname(pending_w)); jword("v", shadow[pending_w]); printf("}\n");
        pending_w = 0;
    }
}
static void budget(void)
{
    if (++accesses > 20000) { flush_write(); printf("{\"e\":\"Hang\",\"id\":\"%s\"}\n", cur_id); fflush(stdout); _exit(0); }
}
volatile uint32_t *hw_wreg(int reg) { budget(); flush_write(); pending_w = reg; shadow[reg] = 0xDEADDEADu; return &shadow[reg]; }
uint32_t hw_rreg(int reg)
{
    uint32_t v = 0;
    budget(); flush_write();
    if (reg == HW_ISR) {
        long d = word_i < ndelays ? delays[word_i] : 0;
        if (polls < d) { polls++; v = 0xFFFFFFFEu & value_of(1000 + polls); }     /* other status bits are noise */
        else v = 1u | (value_of(2000 + word_i) & 0xFFFFFFFEu);
    } else if (reg == HW_ODATA) {
        v = value_of(word_i); word_i++; polls = 0;
    }
    printf("{\"e\":\"Dev\",\"id\":\"%s\",\"op\":\"R\",\"reg\":\"%s\"", cur_id, regname(reg)); jword("v", v); printf("}\n");
    return v;
}
void hw_call(const char *name, long arg)
{
    budget(); flush_write();
    printf("{\"e\":\"Dev\",\"id\":\"%s\",\"op\":\"%s\",\"arg\":%ld}\n", cur_id, name, arg);
}

#if defined(HW_STM32)
RNG_HandleTypeDef hrng = {1}, hrng1 = {2}, hrng2 = {3};
HAL_StatusTypeDef HAL_RNG_GenerateRandomNumber(RNG_HandleTypeDef *h, uint32_t *x)
{
    long st = word_i < nstatuses ? statuses[word_i] : 0;
    uint32_t v = value_of(word_i);
    budget();
    if (st == 0) *x = v;                   /* on failure the HAL leaves *x alone */
    printf("{\"e\":\"Dev\",\"id\":\"%s\",\"op\":\"hal\",\"handle\":%d,\"st\":%ld", cur_id, h ? h->which : 0, st); jword("v", v); printf("}\n");
    word_i++;
    return (HAL_StatusTypeDef)st;
}
#endif
#if defined(HW_ESP) && !defined(ESP8266)
uint32_t esp_random(void)
{
    uint32_t v = value_of(word_i++);
    budget();
    printf("{\"e\":\"Dev\",\"id\":\"%s\",\"op\":\"esp_random\"", cur_id); jword("v", v); printf("}\n");
    return v;
}
#endif
#if defined(HW_WIN)
static int handles_open;
BOOL CryptAcquireContextW(HCRYPTPROV *prov, LPCWSTR container, LPCWSTR provider, DWORD type, DWORD flags)
{
    budget();
    printf("{\"e\":\"Dev\",\"id\":\"%s\",\"op\":\"acquire\",\"container\":%d,\"provider\":%d,\"type\":%lu,\"verify\":%d,\"silent\":%d,\"ok\":%d}\n",
           cur_id, container != 0, provider != 0, type, (flags & CRYPT_VERIFYCONTEXT) != 0, (flags & CRYPT_SILENT) != 0, acq_ok);
    if (acq_ok) { *prov = 0x7117; handles_open++; }
    return acq_ok;
}
BOOL CryptGenRandom(HCRYPTPROV prov, DWORD len, BYTE *buf)
{
    budget();
    if (gen_ok) for (DWORD i = 0; i < len && i < 32; i++) buf[i] = (BYTE)(value_of((int)(i / 4)) >> (8 * (i % 4)));
    else for (DWORD i = 0; i < len && i < 32; i++) buf[i] = 0x77;       /* a failed call may leave junk behind */
    printf("{\"e\":\"Dev\",\"id\":\"%s\",\"op\":\"gen\",\"handle\":%d,\"len\":%lu,\"ok\":%d,\"v\":[", cur_id, prov == 0x7117, len, gen_ok);
    for (DWORD i = 0; i < len && i < 32; i++) printf("%s%u", i ? "," : "", buf[i]);
    printf("]}\n");
    return gen_ok;
}
BOOL CryptReleaseContext(HCRYPTPROV prov, DWORD flags)
{
    budget();
    printf("{\"e\":\"Dev\",\"id\":\"%s\",\"op\":\"release\",\"handle\":%d,\"flags\":%lu}\n", cur_id, prov == 0x7117, flags);
    handles_open--;
    return 1;
}
#endif

static long parse_list(const char *s, long *dst)
{
    long n = 0;
    while (s && *s && n < MAXW) { dst[n++] = strtol(s, (char **)&s, 0); if (*s == ',') s++; }
    return n;
}

int main(void)
{
    char line[4096];
    setvbuf(stdout, NULL, _IOFBF, 1 << 16);
#if defined(HW_ESP) && defined(ESP8266)
    /* the ESP8266 hardware RNG register is read straight from its address: give that address a page */
    void *pg = mmap((void *)0x3FF20000, 4096, PROT_READ | PROT_WRITE, MAP_PRIVATE | MAP_ANONYMOUS | MAP_FIXED, -1, 0);
    if (pg == MAP_FAILED) { printf("{\"e\":\"Fault\",\"why\":\"cannot map the ESP8266 register page\"}\n"); return 0; }
#endif
    printf("{\"e\":\"Reset\",\"id\":\"reset\",\"backend\":\"%s\"}\n", BACKEND);
    while (fgets(line, sizeof(line), stdin)) {
        char id[64] = "?"; char *p;
        if (strncmp(line, "call", 4)) continue;
        ndelays = nstatuses = 0; acq_ok = gen_ok = 1; seed = 1; word_i = 0; polls = 0; accesses = 0;
        if ((p = strstr(line, " id="))) sscanf(p + 4, "%63s", id);
        snprintf(cur_id, sizeof(cur_id), "%s", id);
        if ((p = strstr(line, " d="))) ndelays = (int)parse_list(p + 3, delays);
        if ((p = strstr(line, " st="))) nstatuses = (int)parse_list(p + 4, statuses);
        if ((p = strstr(line, " acq="))) acq_ok = atoi(p + 5);
        if ((p = strstr(line, " gen="))) gen_ok = atoi(p + 5);
        if ((p = strstr(line, " seed="))) seed = strtoull(p + 6, NULL, 0);
        unsigned char *buf = malloc(32 + 128);
        int pf = (int)(seed % 3 == 0 ? 0x00 : seed % 3 == 1 ? 0xFF : 0xA5);
        memset(buf, 0xC3, 64); memset(buf + 64, pf, 32); memset(buf + 96, 0xC3, 64);
#if defined(HW_ESP) && defined(ESP8266)
        *(volatile uint32_t *)0x3FF20E44 = value_of(0);
#endif
        printf("{\"e\":\"Call\",\"id\":\"%s\"}\n", id);
        int ok = tinyjambu_trng_generate(buf + 64);
        flush_write();
        int canary = 1;
        for (int i = 0; i < 64; i++) if (buf[i] != 0xC3 || buf[96 + i] != 0xC3) canary = 0;
        printf("{\"e\":\"Ret\",\"id\":\"%s\",\"ok\":%d,\"out\":[", id, ok != 0);
        for (int i = 0; i < 32; i++) printf("%s%u", i ? "," : "", buf[64 + i]);
        printf("],\"canary\":%d", canary);
#if defined(HW_ESP) && defined(ESP8266)
        jword("reg", value_of(0));
#endif
#if defined(HW_WIN)
        printf(",\"open\":%d", handles_open);
#endif
        printf("}\n");
        free(buf);
    }
    printf("{\"e\":\"End\",\"id\":\"end\"}\n");
    return 0;
}
